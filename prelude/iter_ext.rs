// ===================================================================================
// TRUSTED PRELUDE: closure-parametric stand-ins for std iterator adapters.  Each contract is
// stated over the predicate's own contract (p.requires / p.ensures), so the calling function is
// verified against what its closure really does; nothing is assumed about the closure.
// ===================================================================================
/// how many elements `find` looks at before it stops: a function of the elements and the predicate
/// because the stand-in demands a deterministic predicate
pub uninterp spec fn vx_find_stop<T, P>(s: Seq<T>, p: P) -> int;
/// `find` ran over `s`: it called `p` on s[0], s[1], .. (through mutable references `xs[j]` whose
/// current values are those elements), got `false` every time except possibly the last, and stopped
/// after vx_find_stop(s, p) elements: at the first `true` (found) or at the end (not found)
pub open spec fn vx_find_ran<'a, T, P: FnMut(&&'a mut T) -> bool>(s: Seq<T>, p: P, found: bool) -> bool {
    let k = vx_find_stop(s, p);
    &&& 0 <= k <= s.len()
    &&& exists|xs: Seq<&'a mut T>, bs: Seq<bool>| #![trigger xs.len(), bs.len()]
            xs.len() == k && bs.len() == k
            && (forall|j: int| 0 <= j < k ==> *#[trigger] xs[j] == s[j] && p.ensures((&xs[j],), bs[j]))
            && (forall|j: int| 0 <= j < k - 1 ==> !#[trigger] bs[j])
            && (found ==> k > 0 && bs[k - 1])
            && (!found ==> k == s.len() && (k > 0 ==> !bs[k - 1]))
}
/// `v.iter_mut().find(p)`
#[verifier::external_body]
pub fn vx_iter_mut_find<'a, T, P: FnMut(&&'a mut T) -> bool>(v: &'a mut Vec<T>, p: P) -> (r: Option<&'a mut T>)
    requires
        forall|x: &&'a mut T| p.requires((x,)),
        forall|x: &&'a mut T, b1: bool, b2: bool| p.ensures((x,), b1) && p.ensures((x,), b2) ==> b1 == b2,
    ensures
        vx_find_ran(old(v)@, p, r is Some),
        match r {
            Some(e) => vx_find_stop(old(v)@, p) > 0 && *e == old(v)@[vx_find_stop(old(v)@, p) - 1]
                && final(v)@ == old(v)@.update(vx_find_stop(old(v)@, p) - 1, *final(e)),
            None => final(v)@ == old(v)@,
        },
{ unimplemented!() }
