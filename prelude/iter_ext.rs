// ===================================================================================
// TRUSTED PRELUDE: closure-parametric stand-ins for std iterator adapters.  Each contract is
// stated over the predicate's own contract (p.requires / p.ensures), so the calling function is
// verified against what its closure really does; nothing is assumed about the closure.
// ===================================================================================
/// how many elements `find` looks at before it stops: a function of the elements and the predicate
/// because the stand-in demands a deterministic predicate
pub uninterp spec fn vx_find_stop<T, P>(s: Seq<T>, p: P) -> int;
/// `find` ran over `s`: it called `p` on s[0], s[1], .. (through mutable references `xs[j]` whose
/// current values are those elements), got `false` every time except possibly the last, and stopped
/// after vx_find_stop(s, p) elements: at the first `true` (found) or at the end (not found)
pub open spec fn vx_find_ran<'a, T, P: FnMut(&&'a mut T) -> bool>(s: Seq<T>, p: P, found: bool) -> bool {
    let k = vx_find_stop(s, p);
    &&& 0 <= k <= s.len()
    &&& exists|xs: Seq<&'a mut T>, bs: Seq<bool>| #![trigger xs.len(), bs.len()]
            xs.len() == k && bs.len() == k
            && (forall|j: int| 0 <= j < k ==> *#[trigger] xs[j] == s[j] && p.ensures((&xs[j],), bs[j]))
            && (forall|j: int| 0 <= j < k - 1 ==> !#[trigger] bs[j])
            && (found ==> k > 0 && bs[k - 1])
            && (!found ==> k == s.len() && (k > 0 ==> !bs[k - 1]))
}
/// `v.iter_mut().find(p)`
#[verifier::external_body]
pub fn vx_iter_mut_find<'a, T, P: FnMut(&&'a mut T) -> bool>(v: &'a mut Vec<T>, p: P) -> (r: Option<&'a mut T>)
    requires
        forall|x: &&'a mut T| p.requires((x,)),
        forall|x: &&'a mut T, b1: bool, b2: bool| p.ensures((x,), b1) && p.ensures((x,), b2) ==> b1 == b2,
    ensures
        vx_find_ran(old(v)@, p, r is Some),
        match r {
            Some(e) => vx_find_stop(old(v)@, p) > 0 && *e == old(v)@[vx_find_stop(old(v)@, p) - 1]
                && final(v)@ == old(v)@.update(vx_find_stop(old(v)@, p) - 1, *final(e)),
            None => final(v)@ == old(v)@,
        },
{ unimplemented!() }

// ---- str::split(char).map(f) ----
/// index of the first occurrence of c in s
pub open spec fn first_index_of(s: Seq<char>, c: char) -> Option<int>
    decreases s.len()
{
    if s.len() == 0 { None } else if s[0] == c { Some(0int) } else { match first_index_of(s.drop_first(), c) { Some(i) => Some(i + 1), None => None } }
}
/// the pieces `str::split(c)` yields: cut at every occurrence of c; n occurrences give n + 1 pieces,
/// empty pieces included (std's documented behaviour for a char pattern)
pub open spec fn split_spec(s: Seq<char>, c: char) -> Seq<Seq<char>>
    decreases s.len()
{
    match first_index_of(s, c) {
        None => seq![s],
        Some(i) => if 0 <= i < s.len() { seq![s.subrange(0, i)] + split_spec(s.subrange(i + 1, s.len() as int), c) } else { seq![s] },
    }
}
/// the values a mapped split yields, in order
pub struct VxMapped<R> { pub items: Vec<R> }
impl<R> VxMapped<R> {
    /// Iterator::enumerate, collected: (0, item0), (1, item1), ..
    #[verifier::external_body]
    pub fn enumerate(self) -> (r: Vec<(usize, R)>)
        ensures r@.len() == self.items@.len(), forall|i: int| 0 <= i < r@.len() ==> (#[trigger] r@[i]).0 == i && r@[i].1 == self.items@[i]
    { unimplemented!() }
}
/// `s.split(c).map(f)`: f applied to every piece, in order (evaluated eagerly here; for a pure f
/// the lazy evaluation of the real iterator is not observable)
#[verifier::external_body]
pub fn vx_split_map<'a, R, F: FnMut(&'a str) -> R>(s: &'a str, c: char, f: F) -> (r: VxMapped<R>)
    requires forall|p: &'a str| f.requires((p,)),
    ensures
        r.items@.len() == split_spec(s@, c).len(),
        forall|i: int| 0 <= i < r.items@.len() ==> exists|p: &'a str| p@ == split_spec(s@, c)[i] && f.ensures((p,), #[trigger] r.items@[i]),
{ unimplemented!() }

// ---- slice::Iter::all(pred) ----
/// `v.iter().all(p)`: true means p answered true on every element; false means it answered false on one
#[verifier::external_body]
pub fn vx_iter_all<T, P: FnMut(&T) -> bool>(v: &Vec<T>, p: P) -> (r: bool)
    requires forall|x: &T| p.requires((x,)),
    ensures
        r ==> (forall|i: int| 0 <= i < v@.len() ==> p.ensures((&#[trigger] v@[i],), true)),
        !r ==> (exists|i: int| 0 <= i < v@.len() && p.ensures((&#[trigger] v@[i],), false)),
{ unimplemented!() }

// ---- slice::Iter::fold(init, f) ----
/// `v.iter().fold(init, f)`: f is applied to the accumulator and each element in order; `accs` are the
/// successive accumulator values
#[verifier::external_body]
pub fn vx_iter_fold<T, B, F: FnMut(B, &T) -> B>(v: &Vec<T>, init: B, f: F) -> (r: B)
    requires forall|b: B, x: &T| f.requires((b, x)),
    ensures exists|accs: Seq<B>| #![trigger accs.len()] accs.len() == v@.len() + 1 && accs[0] == init && r == accs[v@.len() as int]
        && (forall|j: int| 0 <= j < v@.len() ==> f.ensures((#[trigger] accs[j], &v@[j]), accs[j + 1])),
{ unimplemented!() }

// ---- slice::Iter::filter(pred).collect::<Vec<&T>>() ----
/// the elements of s whose flag in bs is set, in order (same recursion as vstd's Seq::filter)
pub open spec fn vx_filter_by<T>(s: Seq<T>, bs: Seq<bool>) -> Seq<T>
    decreases s.len()
{
    if s.len() == 0 || bs.len() != s.len() { Seq::<T>::empty() } else {
        let sub = vx_filter_by(s.drop_last(), bs.drop_last());
        if bs.last() { sub.push(s.last()) } else { sub }
    }
}
/// `v.iter().filter(p).collect()`: p is asked once about every element (answers `bs`), the result holds
/// references to exactly the elements it accepted, in order
#[verifier::external_body]
pub fn vx_iter_filter_collect<'a, T, P: FnMut(&&'a T) -> bool>(v: &'a Vec<T>, p: P) -> (r: Vec<&'a T>)
    requires forall|x: &&'a T| p.requires((x,)),
    ensures exists|bs: Seq<bool>| #![trigger bs.len()] bs.len() == v@.len()
        && (forall|j: int| 0 <= j < v@.len() ==> p.ensures((&&#[trigger] v@[j],), bs[j]))
        && r@.map_values(|x: &T| *x) == vx_filter_by(v@, bs),
{ unimplemented!() }
/// vx_filter_by with flags that agree with a predicate is Seq::filter by that predicate
pub proof fn lemma_filter_by_is_filter<T>(s: Seq<T>, bs: Seq<bool>, pred: spec_fn(T) -> bool)
    requires bs.len() == s.len(), forall|j: int| 0 <= j < s.len() ==> #[trigger] bs[j] == pred(s[j]),
    ensures vx_filter_by(s, bs) == s.filter(pred),
    decreases s.len()
{
    reveal(Seq::filter);
    if s.len() > 0 {
        assert forall|j: int| 0 <= j < s.drop_last().len() implies #[trigger] bs.drop_last()[j] == pred(s.drop_last()[j]) by {
            assert(bs.drop_last()[j] == bs[j]);
            assert(s.drop_last()[j] == s[j]);
        }
        lemma_filter_by_is_filter(s.drop_last(), bs.drop_last(), pred);
    } else {
        assert(s.filter(pred) =~= Seq::<T>::empty());
    }
}

// ---- slice::Iter::find(pred) ----
/// `v.iter().find(p)`: p is asked about the elements in order until it answers true; the result is that
/// element, or None when it answered false on all of them
#[verifier::external_body]
pub fn vx_iter_find<'a, T, P: FnMut(&&'a T) -> bool>(v: &'a Vec<T>, p: P) -> (r: Option<&'a T>)
    requires forall|x: &&'a T| p.requires((x,)),
    ensures
        r is Some ==> (exists|i: int| 0 <= i < v@.len() && #[trigger] v@[i] == *r->Some_0 && p.ensures((&&v@[i],), true)
            && (forall|j: int| 0 <= j < i ==> p.ensures((&&#[trigger] v@[j],), false))),
        r is None ==> (forall|i: int| 0 <= i < v@.len() ==> p.ensures((&&#[trigger] v@[i],), false)),
{ unimplemented!() }
