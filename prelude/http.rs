// ===================================================================================
// TRUSTED PRELUDE: stand-ins for http / hyper message types (views only).
// ===================================================================================
#[verifier::external_body] pub struct HeaderValue { _p: u8 }
#[verifier::external_body] pub struct ToStrError { _p: u8 }
#[verifier::external_body] pub struct HeaderMap { _p: u8 }
#[verifier::external_body] #[derive(Debug)] pub struct ParseIntError { _p: u8 }
#[verifier::external_body] pub struct Body { _p: u8 }
#[verifier::external_body] pub struct HttpBuildError { _p: u8 }   // http::Error
#[verifier::external_body] pub struct JsonError { _p: u8 }        // serde_json::Error
#[verifier::external_body] pub struct HyperError { _p: u8 }       // hyper::Error
#[verifier::external_body] pub struct AnyhowError { _p: u8 }      // anyhow::Error
#[verifier::external_body] pub struct BoxDynError { _p: u8 }      // Box<dyn Error + Send>
#[verifier::external_body] pub struct Utf8Error { _p: u8 }

/// Some(s) iff the header value consists of visible ASCII (HeaderValue::to_str's documented rule)
pub uninterp spec fn hv_str(h: &HeaderValue) -> Option<Seq<char>>;
/// the first value stored under a (case-insensitive) header name
pub uninterp spec fn hm_get(m: &HeaderMap, name: Seq<char>) -> Option<&HeaderValue>;
/// std's `u64::from_str`: optional '+', then one or more ASCII digits, value <= u64::MAX
pub uninterp spec fn dec_u64(s: Seq<char>) -> Option<u64>;
pub uninterp spec fn dec_u32(s: Seq<char>) -> Option<u32>;
/// dec_u32 and dec_u64 agree wherever both are defined; dec_u32 is dec_u64 restricted to 32 bits
pub broadcast proof fn axiom_dec_u32_u64(s: Seq<char>)
    ensures #![trigger dec_u32(s)] #![trigger dec_u64(s)]
        dec_u32(s) is Some <==> (dec_u64(s) is Some && dec_u64(s)->Some_0 <= u32::MAX),
        dec_u32(s) is Some ==> dec_u32(s)->Some_0 as u64 == dec_u64(s)->Some_0,
{ admit(); }

impl HeaderValue {
    #[verifier::external_body]
    pub fn to_str(&self) -> (r: Result<&str, ToStrError>)
        ensures hv_str(self) is Some ==> r is Ok && r->Ok_0@ == hv_str(self)->Some_0,
                hv_str(self) is None ==> r is Err
    { unimplemented!() }
}
impl HeaderMap {
    #[verifier::external_body]
    pub fn get(&self, name: &str) -> (r: Option<&HeaderValue>)
        ensures r == hm_get(self, name@)
    { unimplemented!() }
}
#[verifier::external_body]
pub fn vx_parse_u64(s: &str) -> (r: Result<u64, ParseIntError>)
    ensures dec_u64(s@) is Some ==> r is Ok && r->Ok_0 == dec_u64(s@)->Some_0,
            dec_u64(s@) is None ==> r is Err
{ unimplemented!() }
#[verifier::external_body]
pub fn vx_parse_u32(s: &str) -> (r: Result<u32, ParseIntError>)
    ensures dec_u32(s@) is Some ==> r is Ok && r->Ok_0 == dec_u32(s@)->Some_0,
            dec_u32(s@) is None ==> r is Err
{ unimplemented!() }
/// anyhow!(e) / anyhow::Error::from(e): the value is only logged or propagated
#[verifier::external_body]
pub fn vx_anyhow_from<E>(e: E) -> AnyhowError { unimplemented!() }
#[verifier::external_body]
pub fn vx_anyhow() -> AnyhowError { unimplemented!() }
#[verifier::external_body]
pub fn vx_box_dyn_error<E>(e: E) -> BoxDynError { unimplemented!() }

#[verifier::external_body] pub struct StatusCode { _p: u8 }
pub uninterp spec fn status_code(s: StatusCode) -> int;
impl Clone for StatusCode { #[verifier::external_body] fn clone(&self) -> (r: Self) ensures r == *self { unimplemented!() } }
impl Copy for StatusCode {}
impl StatusCode {
    #[verifier::external_body]
    pub fn is_success(&self) -> (b: bool) ensures b == (200 <= status_code(*self) < 300) { unimplemented!() }
    #[verifier::external_body]
    pub fn as_u16(&self) -> (r: u16) ensures r as int == status_code(*self) { unimplemented!() }
    #[verifier::external_body]
    pub fn is_informational(&self) -> (b: bool) ensures b == (100 <= status_code(*self) < 200) { unimplemented!() }
    #[verifier::external_body]
    pub fn is_redirection(&self) -> (b: bool) ensures b == (300 <= status_code(*self) < 400) { unimplemented!() }
    #[verifier::external_body]
    pub fn is_client_error(&self) -> (b: bool) ensures b == (400 <= status_code(*self) < 500) { unimplemented!() }
    #[verifier::external_body]
    pub fn is_server_error(&self) -> (b: bool) ensures b == (500 <= status_code(*self) < 600) { unimplemented!() }
}
/// StatusCode::OK and friends (associated consts of http::StatusCode)
#[verifier::external_body]
pub fn vx_status_const(code: u16) -> (r: StatusCode) ensures status_code(r) == code as int { unimplemented!() }
impl vstd::std_specs::cmp::PartialEqSpecImpl for StatusCode {
    open spec fn obeys_eq_spec() -> bool { true }
    open spec fn eq_spec(&self, other: &StatusCode) -> bool { status_code(*self) == status_code(*other) }
}
impl PartialEq for StatusCode {
    #[verifier::external_body]
    fn eq(&self, other: &StatusCode) -> (b: bool) ensures b == (status_code(*self) == status_code(*other)) { unimplemented!() }
}
/// http::response::Parts (only the two fields the library reads)
pub struct Parts { pub status: StatusCode, pub headers: HeaderMap }
/// http::Response<T>
pub struct HttpResponse<T> { pub head: Parts, pub body: T }
impl<T> HttpResponse<T> {
    pub fn into_parts(self) -> (r: (Parts, T)) ensures r.0 == self.head, r.1 == self.body { (self.head, self.body) }
    pub fn headers(&self) -> (r: &HeaderMap) ensures *r == self.head.headers { &self.head.headers }
    pub fn status(&self) -> (r: StatusCode) ensures r == self.head.status { self.head.status }
    pub fn body(&self) -> (r: &T) ensures *r == self.body { &self.body }
    pub fn into_body(self) -> (r: T) ensures r == self.body { self.body }
}
/// http::Request<hyper::Body> as put on the wire: opaque, with the views contracts need
#[verifier::external_body] pub struct HttpRequestMsg { _p: u8 }
/// rand::random::<u64>(): an arbitrary value (uniformity is not modelled).  `vx_is_draw` is an
/// uninterpreted token that only this function establishes: a contract demanding it can be met
/// only by code that actually consumes a random draw.
pub uninterp spec fn vx_is_draw(d: u64) -> bool;
#[verifier::external_body]
pub fn vx_random_u64() -> (d: u64) ensures vx_is_draw(d) { unimplemented!() }
