// ===================================================================================
// TRUSTED PRELUDE: stand-ins for sha2, hex, p256/ecdsa and http::Uri.  Crypto is
// uninterpreted: sha256, hex, DER parsing and ECDSA validity are spec functions with the
// few algebraic facts stated below.  Nothing here is verified.
// ===================================================================================
//@uses core_ext
//@uses http
pub uninterp spec fn sha256(b: Seq<u8>) -> Seq<u8>;
pub uninterp spec fn utf8(s: Seq<char>) -> Seq<u8>;
/// lower-case hex text of a byte string (hex::encode)
pub uninterp spec fn hex_encode(b: Seq<u8>) -> Seq<char>;
/// hex::decode: Some(bytes) iff the text is an even number of hex digits (either case)
pub uninterp spec fn hex_decode(s: Seq<char>) -> Option<Seq<u8>>;
pub proof fn axiom_hex_roundtrip(b: Seq<u8>)
    ensures hex_decode(hex_encode(b)) == Some(b), hex_encode(b).len() == 2 * b.len(),
{ admit(); }

/// hex::encode emits only 0-9 and a-f
pub proof fn axiom_hex_alphabet(b: Seq<u8>)
    ensures forall|i: int| 0 <= i < hex_encode(b).len() ==> {
        let c = #[trigger] hex_encode(b)[i];
        ('0' <= c && c <= '9') || ('a' <= c && c <= 'f') },
{ admit(); }
/// Display for u64 emits only decimal digits, and u64::from_str reads it back
pub proof fn axiom_dec_str_roundtrip(n: u64)
    ensures dec_u64(dec_str(n as nat)) == Some(n),
        forall|i: int| 0 <= i < dec_str(n as nat).len() ==> { let c = #[trigger] dec_str(n as nat)[i]; '0' <= c && c <= '9' },
{ admit(); }

/// things that can be hashed / viewed as bytes (`impl AsRef<[u8]>` arguments of sha2 / hex)
pub trait VxBytes {
    spec fn vx_bytes(&self) -> Seq<u8>;
}
impl VxBytes for Vec<u8> { open spec fn vx_bytes(&self) -> Seq<u8> { self@ } }
impl VxBytes for [u8] { open spec fn vx_bytes(&self) -> Seq<u8> { self@ } }
impl VxBytes for [u8; 32] { open spec fn vx_bytes(&self) -> Seq<u8> { self@ } }
impl VxBytes for String { open spec fn vx_bytes(&self) -> Seq<u8> { utf8(self@) } }
impl VxBytes for str { open spec fn vx_bytes(&self) -> Seq<u8> { utf8(self@) } }
impl VxBytes for ShaOutput { open spec fn vx_bytes(&self) -> Seq<u8> { self.bytes@ } }
impl<T: VxBytes + ?Sized> VxBytes for &T { open spec fn vx_bytes(&self) -> Seq<u8> { (**self).vx_bytes() } }

/// digest::Output<Sha256> (a 32-byte GenericArray: Copy, derefs to its bytes)
#[derive(Clone, Copy)]
pub struct ShaOutput { pub bytes: [u8; 32] }
impl core::ops::Deref for ShaOutput {
    type Target = Vec<u8>;
    #[verifier::external_body]
    fn deref(&self) -> (r: &Vec<u8>) ensures r@ == self.bytes@ { unimplemented!() }
}
#[verifier::external_body]
pub struct Sha256 { _p: u8 }
impl Sha256 {
    /// bytes absorbed so far
    pub uninterp spec fn buf(&self) -> Seq<u8>;
    #[verifier::external_body]
    pub fn digest<T: VxBytes>(data: T) -> (r: ShaOutput) ensures r.bytes@ == sha256(data.vx_bytes()) { unimplemented!() }
    #[verifier::external_body]
    pub fn new() -> (r: Sha256) ensures r.buf() == Seq::<u8>::empty() { unimplemented!() }
    #[verifier::external_body]
    pub fn update<T: VxBytes>(&mut self, data: T) ensures final(self).buf() == old(self).buf() + data.vx_bytes() { unimplemented!() }
    #[verifier::external_body]
    pub fn finalize(self) -> (r: ShaOutput) ensures r.bytes@ == sha256(self.buf()) { unimplemented!() }
}
#[verifier::external_body] pub struct HexError { _p: u8 }
#[verifier::external_body]
pub fn vx_hex_decode<T: VxDisplay + ?Sized>(s: &T) -> (r: Result<Vec<u8>, HexError>)
    ensures
        hex_decode(s.vx_display()) is Some ==> r is Ok && r->Ok_0@ == hex_decode(s.vx_display())->Some_0,
        hex_decode(s.vx_display()) is None ==> r is Err,
{ unimplemented!() }
#[verifier::external_body]
pub fn vx_hex_encode<T: VxBytes>(b: T) -> (r: String) ensures r@ == hex_encode(b.vx_bytes()) { unimplemented!() }

// ---- P-256 ECDSA ----
#[verifier::external_body] pub struct PublicKey { _p: u8 }      // p256::ecdsa::VerifyingKey
impl Clone for PublicKey { #[verifier::external_body] fn clone(&self) -> (r: Self) ensures r == *self { unimplemented!() } }
impl Copy for PublicKey {}
#[verifier::external_body] pub struct EcdsaError { _p: u8 }
/// the byte string is a well-formed ASN.1 DER ECDSA signature
pub uninterp spec fn der_wellformed(b: Seq<u8>) -> bool;
/// the DER signature `sig` is a valid P-256 ECDSA signature by `key` over the message `msg`
/// (ecdsa's Verifier::verify hashes the message with SHA-256 itself)
pub uninterp spec fn ecdsa_valid(key: PublicKey, msg: Seq<u8>, sig: Seq<u8>) -> bool;
#[verifier::external_body] pub struct DerSignature { _p: u8 }   // p256::ecdsa::DerSignature
impl DerSignature {
    pub uninterp spec fn bytes(&self) -> Seq<u8>;
    #[verifier::external_body]
    pub fn from_bytes(b: &[u8]) -> (r: Result<DerSignature, EcdsaError>)
        ensures r is Ok <==> der_wellformed(b@), r is Ok ==> r->Ok_0.bytes() == b@
    { unimplemented!() }
    #[verifier::external_body]
    pub fn as_ref(&self) -> (r: &[u8]) ensures r@ == self.bytes() { unimplemented!() }
    #[verifier::external_body]
    pub fn as_bytes(&self) -> (r: &[u8]) ensures r@ == self.bytes() { unimplemented!() }
}
/// ecdsa::der::Signature<NistP256> and ecdsa::Signature<NistP256>: the two intermediate forms
/// verify_response_with_signature converts through
#[verifier::external_body] pub struct VxDerSig { _p: u8 }
#[verifier::external_body] pub struct VxSig { _p: u8 }
impl VxDerSig { pub uninterp spec fn bytes(&self) -> Seq<u8>; }
impl VxSig { pub uninterp spec fn der(&self) -> Seq<u8>; }
#[verifier::external_body]
pub fn vx_der_from_slice(b: &[u8]) -> (r: Result<VxDerSig, EcdsaError>)
    ensures r is Ok <==> der_wellformed(b@), r is Ok ==> r->Ok_0.bytes() == b@
{ unimplemented!() }
#[verifier::external_body]
pub fn vx_sig_from_der(d: VxDerSig) -> (r: Result<VxSig, EcdsaError>)
    ensures r is Ok, r->Ok_0.der() == d.bytes()
{ unimplemented!() }
impl PublicKey {
    #[verifier::external_body]
    pub fn verify(&self, msg: &ShaOutput, sig: &VxSig) -> (r: Result<(), EcdsaError>)
        ensures r is Ok <==> ecdsa_valid(*self, msg.bytes@, sig.der())
    { unimplemented!() }
}

// ---- http::Uri ----
#[verifier::external_body] pub struct Uri { _p: u8 }
#[verifier::external_body] pub struct PathAndQuery { _p: u8 }
#[verifier::external_body] pub struct InvalidUri { _p: u8 }
#[verifier::external_body] pub struct InvalidUriParts { _p: u8 }
/// scheme and authority of a URI, as opaque values that are only moved around
#[verifier::external_body] pub struct UriSchemeAuthority { _p: u8 }
/// http::uri::Parts
pub struct UriParts { pub scheme_authority: UriSchemeAuthority, pub path_and_query: Option<PathAndQuery> }
impl Uri {
    pub uninterp spec fn scheme_authority(&self) -> UriSchemeAuthority;
    pub uninterp spec fn path_and_query(&self) -> Option<PathAndQuery>;
    /// text of the URI (Display)
    pub uninterp spec fn text(&self) -> Seq<char>;
    #[verifier::external_body]
    pub fn into_parts(self) -> (r: UriParts) ensures r.scheme_authority == self.scheme_authority(), r.path_and_query == self.path_and_query() { unimplemented!() }
    #[verifier::external_body]
    pub fn from_parts(p: UriParts) -> (r: Result<Uri, InvalidUriParts>)
        ensures r is Ok ==> r->Ok_0.scheme_authority() == p.scheme_authority && r->Ok_0.path_and_query() == p.path_and_query
    { unimplemented!() }
    #[verifier::external_body]
    pub fn to_string(&self) -> (r: String) ensures r@ == self.text() { unimplemented!() }
}
impl PathAndQuery {
    pub uninterp spec fn path_s(&self) -> Seq<char>;
    pub uninterp spec fn query_s(&self) -> Option<Seq<char>>;
    /// text of path-and-query
    pub uninterp spec fn text(&self) -> Seq<char>;
    #[verifier::external_body]
    pub fn path(&self) -> (r: &str) ensures r@ == self.path_s() { unimplemented!() }
    #[verifier::external_body]
    pub fn query(&self) -> (r: Option<&str>) ensures (r is Some <==> self.query_s() is Some), r is Some ==> r->Some_0@ == self.query_s()->Some_0 { unimplemented!() }
}
/// `s.parse::<PathAndQuery>()`: on success the value's text is exactly the parsed string
#[verifier::external_body]
pub fn vx_parse_path_and_query(s: &str) -> (r: Result<PathAndQuery, InvalidUri>)
    ensures r is Ok ==> r->Ok_0.text() == s@
{ unimplemented!() }
/// `s.parse::<Uri>()`
#[verifier::external_body]
pub fn vx_parse_uri(s: &str) -> (r: Result<Uri, InvalidUri>)
    ensures r is Ok ==> r->Ok_0.text() == s@
{ unimplemented!() }
