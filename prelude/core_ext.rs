// ===================================================================================
// TRUSTED PRELUDE: specifications of core/std functions that vstd does not cover.
// Each is the documented meaning of the std function (assumed, not verified).
// ===================================================================================
pub assume_specification [i64::checked_neg] (x: i64) -> (r: Option<i64>)
    ensures
        x == i64::MIN ==> r is None,
        x != i64::MIN ==> r == Some((-(x as int)) as i64),
;

pub assume_specification [u64::wrapping_neg] (x: u64) -> (r: u64)
    ensures
        x == 0 ==> r == 0,
        x != 0 ==> r as int == 0x1_0000_0000_0000_0000 - x as int,
;

pub assume_specification<T, E, U, F: FnOnce(T) -> Result<U, E>> [Result::<T, E>::and_then] (r: Result<T, E>, f: F) -> (out: Result<U, E>)
    requires
        r is Ok ==> f.requires((r->Ok_0,)),
    ensures
        r is Ok ==> f.ensures((r->Ok_0,), out),
        r is Err ==> out is Err && out->Err_0 == r->Err_0,
;

/// core's `impl<T> From<T> for T` is the identity (documented: "From<T> for T is reflexive").
/// vstd cannot state this (orphan rule on its FromSpecImpl), so it is assumed here per type.
pub proof fn axiom_reflexive_into<T>()
    ensures
        <T as vstd::std_specs::convert::IntoSpec<T>>::obeys_into_spec(),
        forall|x: T| #[trigger] vstd::std_specs::convert::IntoSpec::<T>::into_spec(x) == x,
{ admit(); }

pub assume_specification<T, P: FnOnce(&T) -> bool> [Option::<T>::filter] (o: Option<T>, p: P) -> (r: Option<T>)
    requires
        o is Some ==> p.requires((&o->Some_0,)),
    ensures
        o is None ==> r is None,
        r is Some ==> r == o,
        o is Some ==> (r is Some <==> p.ensures((&o->Some_0,), true)),
;

pub assume_specification [i64::saturating_add] (x: i64, y: i64) -> (r: i64)
    ensures
        r as int == (if (x as int) + (y as int) > (i64::MAX as int) { i64::MAX as int } else if (x as int) + (y as int) < (i64::MIN as int) { i64::MIN as int } else { (x as int) + (y as int) }),
;

/// std's `String` hashes and compares consistently (Hash/Eq agree), so it is a valid hash-table key
pub broadcast proof fn axiom_string_obeys_hash_table_key_model()
    ensures #[trigger] vstd::std_specs::hash::obeys_key_model::<String>()
{ admit(); }
//@broadcast axiom_string_obeys_hash_table_key_model

/// `Default::default()` of a type, as a spec value (only the instances below are given meaning)
pub uninterp spec fn vx_default<T>() -> T;
pub broadcast proof fn axiom_default_u32()
    ensures #[trigger] vx_default::<u32>() == 0u32
{ admit(); }
//@broadcast axiom_default_u32
pub assume_specification<T: Default, E> [Result::<T, E>::unwrap_or_default] (r: Result<T, E>) -> (v: T)
    ensures
        r is Ok ==> v == r->Ok_0,
        r is Err ==> v == vx_default::<T>(),
;

pub assume_specification<T: Clone> [<[T]>::to_vec] (s: &[T]) -> (r: Vec<T>)
    ensures r@.len() == s@.len(), forall|i: int| 0 <= i < s@.len() ==> vstd::pervasive::cloned::<T>(#[trigger] s@[i], r@[i]),
;
/// `*x` for a Deref type, as a relation between the owner and the target it derefs to
pub uninterp spec fn vx_derefs_to<T: core::ops::Deref>(owner: &T, target: &T::Target) -> bool;
/// a String derefs to the str with the same characters
pub broadcast proof fn axiom_string_derefs_to(s: &String, t: &str)
    ensures #[trigger] vx_derefs_to::<String>(s, t) ==> t@ == s@
{ admit(); }
//@broadcast axiom_string_derefs_to
pub assume_specification<T> [Option::<T>::as_deref] (o: &Option<T>) -> (r: Option<&<T as core::ops::Deref>::Target>) where T: core::ops::Deref
    ensures o is Some <==> r is Some, r is Some ==> vx_derefs_to::<T>(&o->Some_0, r->Some_0),
;

/// a String is determined by its characters: the view has a left inverse.  (Stated with one trigger
/// per string; the two-string form `a@ == b@ ==> a == b` instantiates for every pair of strings in
/// sight and accounted for two thirds of all quantifier instantiations in perform_update_check.)
pub uninterp spec fn vx_str_of_view(s: Seq<char>) -> String;
pub broadcast proof fn axiom_string_ext(a: String)
    ensures vx_str_of_view(#[trigger] a@) == a
{ admit(); }
//@broadcast axiom_string_ext

/// Spec-level value of `Default::default()` (what derive(Default) and std's Default impls produce)
pub trait VxDefault: Sized {
    spec fn vx_default() -> Self;
}
impl VxDefault for bool { open spec fn vx_default() -> Self { false } }
impl VxDefault for u8 { open spec fn vx_default() -> Self { 0 } }
impl VxDefault for u32 { open spec fn vx_default() -> Self { 0 } }
impl VxDefault for u64 { open spec fn vx_default() -> Self { 0 } }
impl VxDefault for i64 { open spec fn vx_default() -> Self { 0 } }
impl<T> VxDefault for Option<T> { open spec fn vx_default() -> Self { None } }
pub uninterp spec fn vx_empty_string() -> String;
pub broadcast proof fn axiom_empty_string()
    ensures (#[trigger] vx_empty_string())@ == Seq::<char>::empty()
{ admit(); }
//@broadcast axiom_empty_string
impl VxDefault for String { open spec fn vx_default() -> Self { vx_empty_string() } }
pub uninterp spec fn vx_empty_vec<T>() -> Vec<T>;
pub broadcast proof fn axiom_empty_vec<T>()
    ensures (#[trigger] vx_empty_vec::<T>())@ == Seq::<T>::empty()
{ admit(); }
//@broadcast axiom_empty_vec
impl<T> VxDefault for Vec<T> { open spec fn vx_default() -> Self { vx_empty_vec::<T>() } }
pub uninterp spec fn vx_empty_hashmap<K, V>() -> HashMap<K, V>;
impl<K, V> VxDefault for HashMap<K, V> { open spec fn vx_default() -> Self { vx_empty_hashmap::<K, V>() } }

/// HashMap<String, V> looked up with a &str key (String: Borrow<str>): the key whose text equals the str
pub broadcast proof fn axiom_contains_str_key<V>(m: Map<String, V>, k: &str)
    ensures #[trigger] vstd::std_specs::hash::contains_borrowed_key::<String, V, str>(m, k) <==> (exists|s: String| s@ == k@ && m.contains_key(s))
{ admit(); }
pub broadcast proof fn axiom_maps_str_key_to_value<V>(m: Map<String, V>, k: &str, v: V)
    ensures #[trigger] vstd::std_specs::hash::maps_borrowed_key_to_value::<String, V, str>(m, k, v) <==> (exists|s: String| s@ == k@ && m.contains_key(s) && m[s] == v)
{ admit(); }
//@broadcast axiom_contains_str_key
//@broadcast axiom_maps_str_key_to_value

/// Text produced by `{}` (Display) and `{:?}`-style (Debug and other flags: uninterpreted) formatting
pub trait VxDisplay {
    spec fn vx_display(&self) -> Seq<char>;
    spec fn vx_debug(&self) -> Seq<char>;
}
pub uninterp spec fn vx_debug_text<T: ?Sized>(t: &T) -> Seq<char>;
/// decimal text of an unsigned integer (std's Display for integers)
pub uninterp spec fn dec_str(n: nat) -> Seq<char>;
impl VxDisplay for str {
    open spec fn vx_display(&self) -> Seq<char> { self@ }
    open spec fn vx_debug(&self) -> Seq<char> { vx_debug_text(self) }
}
impl VxDisplay for String {
    open spec fn vx_display(&self) -> Seq<char> { self@ }
    open spec fn vx_debug(&self) -> Seq<char> { vx_debug_text(self) }
}
impl VxDisplay for u64 {
    open spec fn vx_display(&self) -> Seq<char> { dec_str(*self as nat) }
    open spec fn vx_debug(&self) -> Seq<char> { vx_debug_text(self) }
}
impl VxDisplay for u32 {
    open spec fn vx_display(&self) -> Seq<char> { dec_str(*self as nat) }
    open spec fn vx_debug(&self) -> Seq<char> { vx_debug_text(self) }
}
impl<T: VxDisplay + ?Sized> VxDisplay for &T {
    open spec fn vx_display(&self) -> Seq<char> { (**self).vx_display() }
    open spec fn vx_debug(&self) -> Seq<char> { (**self).vx_debug() }
}

/// assert!(c) / assert_eq!(a, b): panics unless the condition holds -> proof obligation
#[verifier::external_body]
pub fn vx_assert(c: bool) requires c { unimplemented!() }
/// panic!() / unreachable!(): must be unreachable
#[verifier::external_body]
pub fn vx_panic() -> ! requires false { unimplemented!() }
