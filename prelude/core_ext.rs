// ===================================================================================
// TRUSTED PRELUDE: specifications of core/std functions that vstd does not cover.
// Each is the documented meaning of the std function (assumed, not verified).
// ===================================================================================
pub assume_specification [i64::checked_neg] (x: i64) -> (r: Option<i64>)
    ensures
        x == i64::MIN ==> r is None,
        x != i64::MIN ==> r == Some((-(x as int)) as i64),
;

pub assume_specification [u64::wrapping_neg] (x: u64) -> (r: u64)
    ensures
        x == 0 ==> r == 0,
        x != 0 ==> r as int == 0x1_0000_0000_0000_0000 - x as int,
;

pub assume_specification<T, E, U, F: FnOnce(T) -> Result<U, E>> [Result::<T, E>::and_then] (r: Result<T, E>, f: F) -> (out: Result<U, E>)
    requires
        r is Ok ==> f.requires((r->Ok_0,)),
    ensures
        r is Ok ==> f.ensures((r->Ok_0,), out),
        r is Err ==> out is Err && out->Err_0 == r->Err_0,
;

/// core's `impl<T> From<T> for T` is the identity (documented: "From<T> for T is reflexive").
/// vstd cannot state this (orphan rule on its FromSpecImpl), so it is assumed here per type.
pub proof fn axiom_reflexive_into<T>()
    ensures
        <T as vstd::std_specs::convert::IntoSpec<T>>::obeys_into_spec(),
        forall|x: T| #[trigger] vstd::std_specs::convert::IntoSpec::<T>::into_spec(x) == x,
{ admit(); }

pub assume_specification<T, P: FnOnce(&T) -> bool> [Option::<T>::filter] (o: Option<T>, p: P) -> (r: Option<T>)
    requires
        o is Some ==> p.requires((&o->Some_0,)),
    ensures
        o is None ==> r is None,
        r is Some ==> r == o,
        o is Some ==> (r is Some <==> p.ensures((&o->Some_0,), true)),
;

pub assume_specification [i64::saturating_add] (x: i64, y: i64) -> (r: i64)
    ensures
        r as int == (if (x as int) + (y as int) > (i64::MAX as int) { i64::MAX as int } else if (x as int) + (y as int) < (i64::MIN as int) { i64::MIN as int } else { (x as int) + (y as int) }),
;

/// std's `String` hashes and compares consistently (Hash/Eq agree), so it is a valid hash-table key
pub broadcast proof fn axiom_string_obeys_hash_table_key_model()
    ensures #[trigger] vstd::std_specs::hash::obeys_key_model::<String>()
{ admit(); }
//@broadcast axiom_string_obeys_hash_table_key_model
