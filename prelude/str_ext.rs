// ===================================================================================
// TRUSTED PRELUDE: specifications of str methods taking a pattern argument.
// ===================================================================================
//@uses core_ext
// ---- str predicates with a pattern argument (starts_with / ends_with / contains) ----
/// the text of a pattern argument when it is a string slice (other pattern kinds: unknown)
pub uninterp spec fn pat_text<P>(p: P) -> Option<Seq<char>>;
//@broadcast axiom_pat_text_str
pub broadcast proof fn axiom_pat_text_str(p: &str) ensures #[trigger] pat_text::<&str>(p) == Some(p@) { admit(); }
pub open spec fn is_prefix(a: Seq<char>, s: Seq<char>) -> bool { a.len() <= s.len() && s.subrange(0, a.len() as int) == a }
pub open spec fn is_suffix(a: Seq<char>, s: Seq<char>) -> bool { a.len() <= s.len() && s.subrange(s.len() - a.len(), s.len() as int) == a }
#[verifier::allow(undeclared_external_trait)]
pub assume_specification<P: core::str::pattern::Pattern>[ str::starts_with::<P> ](s: &str, p: P) -> (r: bool)
    ensures pat_text(p) is Some ==> r == is_prefix(pat_text(p)->Some_0, s@);
