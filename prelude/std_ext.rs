// ===================================================================================
// TRUSTED PRELUDE: more std specifications (used by the leaf groups; kept out of the
// state-machine group's context on purpose).
// ===================================================================================
//@uses core_ext
//@uses http
pub use vstd::std_specs::cmp::PartialEqSpec;
/// Option::is_some_and(f)
pub assume_specification<T, F: FnOnce(T) -> bool>[ Option::<T>::is_some_and ](o: Option<T>, f: F) -> (r: bool)
    requires o is Some ==> f.requires((o->Some_0,)),
    ensures match o { None => !r, Some(x) => f.ensures((x,), r) };
/// <[T]>::contains(x): some element compares equal
pub assume_specification<T: PartialEq>[ <[T]>::contains ](s: &[T], x: &T) -> (r: bool)
    ensures T::obeys_eq_spec() ==> r == (exists|i: int| 0 <= i < s@.len() && #[trigger] s@[i].eq_spec(x));
/// `s.parse()` with the target type taken from the context, for the integer types the code parses
pub trait VxParse: Sized {
    spec fn dec(s: Seq<char>) -> Option<Self>;
}
impl VxParse for u64 { open spec fn dec(s: Seq<char>) -> Option<u64> { dec_u64(s) } }
impl VxParse for u32 { open spec fn dec(s: Seq<char>) -> Option<u32> { dec_u32(s) } }
#[verifier::external_body]
pub fn vx_parse<T: VxParse>(s: &str) -> (r: Result<T, ParseIntError>)
    ensures T::dec(s@) is Some ==> r is Ok && r->Ok_0 == T::dec(s@)->Some_0,
            T::dec(s@) is None ==> r is Err
{ unimplemented!() }
/// Option::or_else(f)
pub assume_specification<T, F: FnOnce() -> Option<T>>[ Option::<T>::or_else ](o: Option<T>, f: F) -> (r: Option<T>)
    requires o is None ==> f.requires(()),
    ensures match o { Some(x) => r == Some(x), None => f.ensures((), r) };
/// Option::or
pub assume_specification<T>[ Option::<T>::or ](o: Option<T>, b: Option<T>) -> (r: Option<T>)
    ensures r == (if o is Some { o } else { b });
/// Option::map_or(default, f)
pub assume_specification<T, U, F: FnOnce(T) -> U>[ Option::<T>::map_or ](o: Option<T>, default: U, f: F) -> (r: U)
    requires o is Some ==> f.requires((o->Some_0,)),
    ensures match o { Some(x) => f.ensures((x,), r), None => r == default };
