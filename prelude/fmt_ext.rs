// ===================================================================================
// TRUSTED PRELUDE: core::fmt::Formatter as a text sink, for Display impls under contract.
// `format!("{}", x)` / `x.to_string()` elsewhere are assumed to produce what x's Display::fmt
// writes into an empty formatter (that is core::fmt's contract).
// ===================================================================================
//@uses core_ext
#[verifier::external_body] pub struct VxFormatter { _p: u8 }
pub struct VxFmtError {}
pub type VxFmtResult = Result<(), VxFmtError>;
impl VxFormatter {
    /// everything written so far
    pub uninterp spec fn text(&self) -> Seq<char>;
    /// write!(f, ..): appends the formatted text (an Err leaves the content unspecified)
    #[verifier::external_body]
    pub fn vx_write_str(&mut self, s: &String) -> (r: VxFmtResult)
        ensures r is Ok ==> final(self).text() == old(self).text() + s@
    { unimplemented!() }
    #[verifier::external_body]
    pub fn vx_writeln_str(&mut self, s: &String) -> (r: VxFmtResult)
        ensures r is Ok ==> final(self).text() == old(self).text() + s@ + "\n"@
    { unimplemented!() }
}
/// core::fmt::Display
pub trait VxDisplayFmt {
    fn fmt(&self, f: &mut VxFormatter) -> VxFmtResult;
}
