// ===================================================================================
// TRUSTED PRELUDE: stand-ins for std::time (never verified; contracts are assumptions)
// Views: SystemTime -> signed nanoseconds from the UNIX epoch, Duration -> nanoseconds,
// Instant -> signed nanoseconds on an arbitrary monotonic timeline.
// Platform ranges are those of Linux std: Duration = u64 s + u32 ns; SystemTime/Instant = i64 s + u32 ns.
// The panicking operators carry the platform overflow condition as a *requires*.
// ===================================================================================
#[verifier::external_body]
pub struct Duration { _p: u8 }
#[verifier::external_body]
pub struct SystemTime { _p: u8 }
#[verifier::external_body]
pub struct Instant { _p: u8 }
#[verifier::external_body]
pub struct SystemTimeError { _p: u8 }

pub open spec fn DUR_MAX_NS() -> int { 18446744073709551616 * 1000000000 - 1 }
pub open spec fn ST_MIN_NS() -> int { -9223372036854775808 * 1000000000 }
pub open spec fn ST_MAX_NS() -> int { 9223372036854775808 * 1000000000 - 1 }

impl Duration {
    pub uninterp spec fn ns(self) -> int;
}
impl SystemTime {
    pub uninterp spec fn ns(self) -> int;
}
impl Instant {
    pub uninterp spec fn ns(self) -> int;
}
impl SystemTimeError {
    pub uninterp spec fn dur(self) -> Duration;
}

    // every value of the three types lies in its platform range; equal views are equal values
    pub broadcast proof fn axiom_duration_range(d: Duration)
        ensures 0 <= #[trigger] d.ns() <= DUR_MAX_NS(),
    { admit(); }
    pub broadcast proof fn axiom_systemtime_range(t: SystemTime)
        ensures ST_MIN_NS() <= #[trigger] t.ns() <= ST_MAX_NS(),
    { admit(); }
    pub broadcast proof fn axiom_instant_range(t: Instant)
        ensures ST_MIN_NS() <= #[trigger] t.ns() <= ST_MAX_NS(),
    { admit(); }
    pub broadcast proof fn axiom_duration_ext(a: Duration, b: Duration)
        ensures (#[trigger] a.ns() == #[trigger] b.ns()) ==> a == b,
    { admit(); }
    pub broadcast proof fn axiom_systemtime_ext(a: SystemTime, b: SystemTime)
        ensures (#[trigger] a.ns() == #[trigger] b.ns()) ==> a == b,
    { admit(); }
    pub broadcast proof fn axiom_instant_ext(a: Instant, b: Instant)
        ensures (#[trigger] a.ns() == #[trigger] b.ns()) ==> a == b,
    { admit(); }
    pub broadcast group group_time_axioms {
        axiom_duration_range, axiom_systemtime_range, axiom_instant_range,
        axiom_duration_ext, axiom_systemtime_ext, axiom_instant_ext,
    }
//@broadcast group_time_axioms

impl Clone for Duration { #[verifier::external_body] fn clone(&self) -> (r: Self) ensures r == *self { unimplemented!() } }
impl Copy for Duration {}
impl Clone for SystemTime { #[verifier::external_body] fn clone(&self) -> (r: Self) ensures r == *self { unimplemented!() } }
impl Copy for SystemTime {}
impl Clone for Instant { #[verifier::external_body] fn clone(&self) -> (r: Self) ensures r == *self { unimplemented!() } }
impl Copy for Instant {}

// ---- equality / ordering ----
impl vstd::std_specs::cmp::PartialEqSpecImpl for Duration {
    open spec fn obeys_eq_spec() -> bool { true }
    open spec fn eq_spec(&self, other: &Duration) -> bool { self.ns() == other.ns() }
}
impl PartialEq for Duration {
    #[verifier::external_body]
    fn eq(&self, other: &Duration) -> (b: bool) ensures b == (self.ns() == other.ns()) { unimplemented!() }
}
impl Eq for Duration {}
impl vstd::std_specs::cmp::PartialEqSpecImpl for SystemTime {
    open spec fn obeys_eq_spec() -> bool { true }
    open spec fn eq_spec(&self, other: &SystemTime) -> bool { self.ns() == other.ns() }
}
impl PartialEq for SystemTime {
    #[verifier::external_body]
    fn eq(&self, other: &SystemTime) -> (b: bool) ensures b == (self.ns() == other.ns()) { unimplemented!() }
}
impl Eq for SystemTime {}
impl vstd::std_specs::cmp::PartialEqSpecImpl for Instant {
    open spec fn obeys_eq_spec() -> bool { true }
    open spec fn eq_spec(&self, other: &Instant) -> bool { self.ns() == other.ns() }
}
impl PartialEq for Instant {
    #[verifier::external_body]
    fn eq(&self, other: &Instant) -> (b: bool) ensures b == (self.ns() == other.ns()) { unimplemented!() }
}
impl Eq for Instant {}

pub open spec fn vx_int_cmp(a: int, b: int) -> core::cmp::Ordering {
    if a < b { core::cmp::Ordering::Less } else if a == b { core::cmp::Ordering::Equal } else { core::cmp::Ordering::Greater }
}
impl vstd::std_specs::cmp::PartialOrdSpecImpl for SystemTime {
    open spec fn obeys_partial_cmp_spec() -> bool { true }
    open spec fn partial_cmp_spec(&self, other: &SystemTime) -> Option<core::cmp::Ordering> { Some(vx_int_cmp(self.ns(), other.ns())) }
}
impl PartialOrd for SystemTime {
    #[verifier::external_body]
    fn partial_cmp(&self, other: &SystemTime) -> (r: Option<core::cmp::Ordering>) ensures r == Some(vx_int_cmp(self.ns(), other.ns())) { unimplemented!() }
}
impl vstd::std_specs::cmp::PartialOrdSpecImpl for Instant {
    open spec fn obeys_partial_cmp_spec() -> bool { true }
    open spec fn partial_cmp_spec(&self, other: &Instant) -> Option<core::cmp::Ordering> { Some(vx_int_cmp(self.ns(), other.ns())) }
}
impl PartialOrd for Instant {
    #[verifier::external_body]
    fn partial_cmp(&self, other: &Instant) -> (r: Option<core::cmp::Ordering>) ensures r == Some(vx_int_cmp(self.ns(), other.ns())) { unimplemented!() }
}
impl vstd::std_specs::cmp::PartialOrdSpecImpl for Duration {
    open spec fn obeys_partial_cmp_spec() -> bool { true }
    open spec fn partial_cmp_spec(&self, other: &Duration) -> Option<core::cmp::Ordering> { Some(vx_int_cmp(self.ns(), other.ns())) }
}
impl PartialOrd for Duration {
    #[verifier::external_body]
    fn partial_cmp(&self, other: &Duration) -> (r: Option<core::cmp::Ordering>) ensures r == Some(vx_int_cmp(self.ns(), other.ns())) { unimplemented!() }
}

// ---- Duration ----
impl Duration {
    #[verifier::external_body]
    pub fn from_secs(s: u64) -> (d: Duration) ensures d.ns() == s as int * 1_000_000_000 { unimplemented!() }
    #[verifier::external_body]
    pub fn from_millis(ms: u64) -> (d: Duration) ensures d.ns() == ms as int * 1_000_000 { unimplemented!() }
    #[verifier::external_body]
    pub fn from_micros(us: u64) -> (d: Duration) ensures d.ns() == us as int * 1_000 { unimplemented!() }
    #[verifier::external_body]
    pub fn from_nanos(n: u64) -> (d: Duration) ensures d.ns() == n as int { unimplemented!() }
    #[verifier::external_body]
    pub fn as_secs(&self) -> (r: u64) ensures r as int == self.ns() / 1_000_000_000 { unimplemented!() }
    #[verifier::external_body]
    pub fn as_millis(&self) -> (r: u128) ensures r as int == self.ns() / 1_000_000 { unimplemented!() }
    #[verifier::external_body]
    pub fn as_micros(&self) -> (r: u128) ensures r as int == self.ns() / 1_000 { unimplemented!() }
    #[verifier::external_body]
    pub fn as_nanos(&self) -> (r: u128) ensures r as int == self.ns() { unimplemented!() }
    #[verifier::external_body]
    pub fn checked_sub(self, rhs: Duration) -> (r: Option<Duration>)
        ensures
            self.ns() >= rhs.ns() ==> r is Some && r->Some_0.ns() == self.ns() - rhs.ns(),
            self.ns() < rhs.ns() ==> r is None,
    { unimplemented!() }
    #[verifier::external_body]
    pub fn checked_add(self, rhs: Duration) -> (r: Option<Duration>)
        ensures
            self.ns() + rhs.ns() <= DUR_MAX_NS() ==> r is Some && r->Some_0.ns() == self.ns() + rhs.ns(),
            self.ns() + rhs.ns() > DUR_MAX_NS() ==> r is None,
    { unimplemented!() }
}
pub fn vx_unix_epoch() -> (t: SystemTime) ensures t.ns() == 0 { vx_unix_epoch_ext() }
#[verifier::external_body]
fn vx_unix_epoch_ext() -> (t: SystemTime) ensures t.ns() == 0 { unimplemented!() }

impl SystemTimeError {
    #[verifier::external_body]
    pub fn duration(&self) -> (d: Duration) ensures d == self.dur() { unimplemented!() }
}

// ---- SystemTime ----
impl SystemTime {
    #[verifier::external_body]
    pub fn duration_since(&self, earlier: SystemTime) -> (r: Result<Duration, SystemTimeError>)
        ensures
            self.ns() >= earlier.ns() ==> r is Ok && r->Ok_0.ns() == self.ns() - earlier.ns(),
            self.ns() < earlier.ns() ==> r is Err && r->Err_0.dur().ns() == earlier.ns() - self.ns(),
    { unimplemented!() }
    #[verifier::external_body]
    pub fn checked_add(&self, d: Duration) -> (r: Option<SystemTime>)
        ensures
            self.ns() + d.ns() <= ST_MAX_NS() ==> r is Some && r->Some_0.ns() == self.ns() + d.ns(),
            self.ns() + d.ns() > ST_MAX_NS() ==> r is None,
    { unimplemented!() }
    #[verifier::external_body]
    pub fn checked_sub(&self, d: Duration) -> (r: Option<SystemTime>)
        ensures
            self.ns() - d.ns() >= ST_MIN_NS() ==> r is Some && r->Some_0.ns() == self.ns() - d.ns(),
            self.ns() - d.ns() < ST_MIN_NS() ==> r is None,
    { unimplemented!() }
}
impl vstd::std_specs::ops::AddSpecImpl<Duration> for SystemTime {
    open spec fn obeys_add_spec() -> bool { false }
    open spec fn add_req(self, rhs: Duration) -> bool { self.ns() + rhs.ns() <= ST_MAX_NS() }
    uninterp spec fn add_spec(self, rhs: Duration) -> SystemTime;
}
impl core::ops::Add<Duration> for SystemTime {
    type Output = SystemTime;
    #[verifier::external_body]
    fn add(self, rhs: Duration) -> (r: SystemTime) ensures r.ns() == self.ns() + rhs.ns() { unimplemented!() }
}
impl vstd::std_specs::ops::SubSpecImpl<Duration> for SystemTime {
    open spec fn obeys_sub_spec() -> bool { false }
    open spec fn sub_req(self, rhs: Duration) -> bool { self.ns() - rhs.ns() >= ST_MIN_NS() }
    uninterp spec fn sub_spec(self, rhs: Duration) -> SystemTime;
}
impl core::ops::Sub<Duration> for SystemTime {
    type Output = SystemTime;
    #[verifier::external_body]
    fn sub(self, rhs: Duration) -> (r: SystemTime) ensures r.ns() == self.ns() - rhs.ns() { unimplemented!() }
}

// ---- Instant ----
impl Instant {
    #[verifier::external_body]
    pub fn checked_duration_since(&self, earlier: Instant) -> (r: Option<Duration>)
        ensures
            self.ns() >= earlier.ns() ==> r is Some && r->Some_0.ns() == self.ns() - earlier.ns(),
            self.ns() < earlier.ns() ==> r is None,
    { unimplemented!() }
    #[verifier::external_body]
    pub fn checked_add(&self, d: Duration) -> (r: Option<Instant>)
        ensures
            self.ns() + d.ns() <= ST_MAX_NS() ==> r is Some && r->Some_0.ns() == self.ns() + d.ns(),
            self.ns() + d.ns() > ST_MAX_NS() ==> r is None,
    { unimplemented!() }
    #[verifier::external_body]
    pub fn checked_sub(&self, d: Duration) -> (r: Option<Instant>)
        ensures
            self.ns() - d.ns() >= ST_MIN_NS() ==> r is Some && r->Some_0.ns() == self.ns() - d.ns(),
            self.ns() - d.ns() < ST_MIN_NS() ==> r is None,
    { unimplemented!() }
}
impl vstd::std_specs::ops::AddSpecImpl<Duration> for Instant {
    open spec fn obeys_add_spec() -> bool { false }
    open spec fn add_req(self, rhs: Duration) -> bool { self.ns() + rhs.ns() <= ST_MAX_NS() }
    uninterp spec fn add_spec(self, rhs: Duration) -> Instant;
}
impl core::ops::Add<Duration> for Instant {
    type Output = Instant;
    #[verifier::external_body]
    fn add(self, rhs: Duration) -> (r: Instant) ensures r.ns() == self.ns() + rhs.ns() { unimplemented!() }
}
impl vstd::std_specs::ops::SubSpecImpl<Duration> for Instant {
    open spec fn obeys_sub_spec() -> bool { false }
    open spec fn sub_req(self, rhs: Duration) -> bool { self.ns() - rhs.ns() >= ST_MIN_NS() }
    uninterp spec fn sub_spec(self, rhs: Duration) -> Instant;
}
impl core::ops::Sub<Duration> for Instant {
    type Output = Instant;
    #[verifier::external_body]
    fn sub(self, rhs: Duration) -> (r: Instant) ensures r.ns() == self.ns() - rhs.ns() { unimplemented!() }
}
