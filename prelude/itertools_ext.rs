// ===================================================================================
// TRUSTED PRELUDE: itertools::Itertools::format (R39).
// `X.iter().format(sep)` is a value whose Display prints every item's Display text, in order, with
// `sep` between consecutive items (itertools documentation: "Format all iterator elements, separated
// by sep"; nothing before the first or after the last item).
// ===================================================================================
//@uses core_ext
/// item texts joined by sep
pub open spec fn join_display<T: VxDisplay>(s: Seq<T>, sep: Seq<char>) -> Seq<char>
    decreases s.len()
{
    if s.len() == 0 { Seq::<char>::empty() }
    else if s.len() == 1 { s[0].vx_display() }
    else { s[0].vx_display() + sep + join_display(s.drop_first(), sep) }
}
pub struct VxFormat<'a, T, const N: usize> { pub items: &'a [T; N], pub sep: &'a str }
impl<'a, T: VxDisplay, const N: usize> VxDisplay for VxFormat<'a, T, N> {
    open spec fn vx_display(&self) -> Seq<char> { join_display(self.items@, self.sep@) }
    open spec fn vx_debug(&self) -> Seq<char> { vx_debug_text(self) }
}
#[verifier::external_body]
pub fn vx_iter_format<'a, T: VxDisplay, const N: usize>(v: &'a [T; N], sep: &'a str) -> (r: VxFormat<'a, T, N>)
    ensures r.items == v, r.sep == sep,
{ unimplemented!() }
