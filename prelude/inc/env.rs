// ===================================================================================
// TRUSTED INCLUDE: stand-ins for the embedder-facing traits of omaha-client
// (Storage+StorageExt, PolicyEngine, Installer, Timer, TimeSource, MetricsReporter,
// HttpRequest, AppSet+AppSetExt, Cupv2Handler, Plan) with *ghost logs* of every
// observable interaction.  Results of environment calls are unconstrained beyond
// their type, so everything proved against these traits holds for all server answers,
// policy answers, installer results, storage contents and storage failures.
// Signatures mirror the real trait declarations (checked by tools/conformance.py).
// ===================================================================================

// ---------------- Storage ----------------
pub enum StorageOp {
    SetString(Seq<char>, Seq<char>, bool),   // key, value, succeeded
    SetInt(Seq<char>, i64, bool),
    SetBool(Seq<char>, bool, bool),
    Remove(Seq<char>, bool),
    Commit(bool),
}
pub trait Storage {
    type Error;
    /// every mutating operation issued so far, with whether it reported success
    spec fn log(&self) -> Seq<StorageOp>;
    /// what a read of `key` returns in the current state (unconstrained: any stored content)
    spec fn string_at(&self, key: Seq<char>) -> Option<Seq<char>>;
    spec fn int_at(&self, key: Seq<char>) -> Option<i64>;

    fn get_string<'a>(&'a self, key: &'a str) -> (f: BoxFuture<'a, Option<String>>)
        ensures f.awaited() ==> (f@ is Some <==> self.string_at(key@) is Some) && (f@ is Some ==> f@->Some_0@ == self.string_at(key@)->Some_0);
    fn get_int<'a>(&'a self, key: &'a str) -> (f: BoxFuture<'a, Option<i64>>)
        ensures f.awaited() ==> f@ == self.int_at(key@);
    fn set_string<'a>(&'a mut self, key: &'a str, value: &'a str) -> (f: BoxFuture<'a, Result<(), Self::Error>>)
        ensures f.awaited() ==> final(self).log() == old(self).log().push(StorageOp::SetString(key@, value@, f@ is Ok));
    fn set_int<'a>(&'a mut self, key: &'a str, value: i64) -> (f: BoxFuture<'a, Result<(), Self::Error>>)
        ensures f.awaited() ==> final(self).log() == old(self).log().push(StorageOp::SetInt(key@, value, f@ is Ok));
    fn remove<'a>(&'a mut self, key: &'a str) -> (f: BoxFuture<'a, Result<(), Self::Error>>)
        ensures f.awaited() ==> final(self).log() == old(self).log().push(StorageOp::Remove(key@, f@ is Ok));
    fn commit<'a>(&'a mut self) -> (f: BoxFuture<'a, Result<(), Self::Error>>)
        ensures f.awaited() ==> final(self).log() == old(self).log().push(StorageOp::Commit(f@ is Ok));

    // ---- StorageExt (provided methods of the real extension trait; assumed to mean their
    // ---- three-line definitions in storage.rs: set_option_int = set_int | remove,
    // ---- get_time = get_int mapped through micros_from_epoch_to_system_time,
    // ---- set_time = set_option_int of checked_system_time_to_micros_from_epoch,
    // ---- *_or_log = the operation with its error logged and dropped)
    fn set_option_int<'a>(&'a mut self, key: &'a str, value: Option<i64>) -> (f: BoxFuture<'a, Result<(), Self::Error>>)
        ensures f.awaited() ==> final(self).log() == old(self).log().push(
            match value { Some(v) => StorageOp::SetInt(key@, v, f@ is Ok), None => StorageOp::Remove(key@, f@ is Ok) });
    fn get_time<'a>(&'a self, key: &'a str) -> (f: BoxFuture<'a, Option<SystemTime>>)
        ensures f.awaited() ==> (f@ is Some <==> self.int_at(key@) is Some)
            && (f@ is Some ==> f@->Some_0.ns() == spec_from_micros(self.int_at(key@)->Some_0));
    fn set_time<'a, VxI0: Into<SystemTime>>(&'a mut self, key: &'a str, value: VxI0) -> (f: BoxFuture<'a, Result<(), Self::Error>>)
        requires <VxI0 as vstd::std_specs::convert::IntoSpec<SystemTime>>::obeys_into_spec(),
        ensures f.awaited() ==> final(self).log() == old(self).log().push(
            match spec_to_micros(vstd::std_specs::convert::IntoSpec::<SystemTime>::into_spec(value).ns()) {
                Some(v) => StorageOp::SetInt(key@, v, f@ is Ok), None => StorageOp::Remove(key@, f@ is Ok) });
    fn remove_or_log<'a>(&'a mut self, key: &'a str) -> (f: BoxFuture<'a, ()>)
        ensures f.awaited() ==> exists|ok: bool| final(self).log() == old(self).log().push(StorageOp::Remove(key@, ok));
    fn commit_or_log<'a>(&'a mut self) -> (f: BoxFuture<'a, ()>)
        ensures f.awaited() ==> exists|ok: bool| final(self).log() == old(self).log().push(StorageOp::Commit(ok));
}

// ---------------- time ----------------
pub trait TimeSource {
    fn now_in_walltime(&self) -> SystemTime;
    fn now_in_monotonic(&self) -> Instant;
    fn now(&self) -> ComplexTime;
}
pub enum TimerOp { WaitUntil(PartialComplexTime), WaitFor(Duration) }
pub trait Timer {
    /// timers armed so far
    spec fn log(&self) -> Seq<TimerOp>;
    fn wait_until<VxI0: Into<PartialComplexTime>>(&mut self, time: VxI0) -> (f: BoxFuture<'static, ()>)
        requires <VxI0 as vstd::std_specs::convert::IntoSpec<PartialComplexTime>>::obeys_into_spec(),
        ensures final(self).log() == old(self).log().push(TimerOp::WaitUntil(vstd::std_specs::convert::IntoSpec::<PartialComplexTime>::into_spec(time))),
            vx_timer_of(f) == TimerOp::WaitUntil(vstd::std_specs::convert::IntoSpec::<PartialComplexTime>::into_spec(time)),
            cond_of(f) == WaitCond::Timer(TimerOp::WaitUntil(vstd::std_specs::convert::IntoSpec::<PartialComplexTime>::into_spec(time)));
    fn wait_for(&mut self, duration: Duration) -> (f: BoxFuture<'static, ()>)
        ensures final(self).log() == old(self).log().push(TimerOp::WaitFor(duration)),
            vx_timer_of(f) == TimerOp::WaitFor(duration),
            cond_of(f) == WaitCond::Timer(TimerOp::WaitFor(duration));
}
/// which armed timer a timer future stands for
pub uninterp spec fn vx_timer_of(f: BoxFuture<'static, ()>) -> TimerOp;

// ---------------- metrics ----------------
pub trait MetricsReporter {
    spec fn log(&self) -> Seq<Metrics>;
    fn report_metrics(&mut self, metrics: Metrics) -> (r: Result<(), AnyhowError>)
        ensures final(self).log() == old(self).log().push(metrics);
}

// ---------------- HTTP ----------------
pub trait HttpRequest {
    /// every exchange performed so far: the request put on the wire and what came back
    spec fn log(&self) -> Seq<(HttpRequestMsg, Result<HttpResponse<Vec<u8>>, http_request::Error>)>;
    fn request<'a>(&'a mut self, req: HttpRequestMsg) -> (f: BoxFuture<'a, Result<HttpResponse<Vec<u8>>, http_request::Error>>)
        ensures f.awaited() ==> final(self).log() == old(self).log().push((req, f@));
}

// ---------------- policy ----------------
pub enum PolicyOp {
    ComputeNextUpdateTime(Seq<App>, UpdateCheckSchedule, ProtocolState, CheckTiming),
    UpdateCheckAllowed(Seq<App>, UpdateCheckSchedule, ProtocolState, CheckOptions, CheckDecision),
    UpdateCanStart(UpdateDecision),
    RebootAllowed(CheckOptions, bool),
    RebootNeeded(bool),
}
pub trait PolicyEngine {
    type TimeSource: TimeSource + Clone;
    fn time_source(&self) -> &Self::TimeSource;
    type InstallResult;
    type InstallPlan: Plan;
    /// every question asked so far, with the answer received
    spec fn log(&self) -> Seq<PolicyOp>;
    fn compute_next_update_time<'a>(&'a mut self, apps: &'a [App], scheduling: &'a UpdateCheckSchedule, protocol_state: &'a ProtocolState) -> (f: BoxFuture<'a, CheckTiming>)
        ensures f.awaited() ==> final(self).log() == old(self).log().push(PolicyOp::ComputeNextUpdateTime(apps@, *scheduling, *protocol_state, f@));
    fn update_check_allowed<'a>(&'a mut self, apps: &'a [App], scheduling: &'a UpdateCheckSchedule, protocol_state: &'a ProtocolState, check_options: &'a CheckOptions) -> (f: BoxFuture<'a, CheckDecision>)
        ensures f.awaited() ==> final(self).log() == old(self).log().push(PolicyOp::UpdateCheckAllowed(apps@, *scheduling, *protocol_state, *check_options, f@));
    fn update_can_start<'a>(&'a mut self, proposed_install_plan: &'a Self::InstallPlan) -> (f: BoxFuture<'a, UpdateDecision>)
        ensures f.awaited() ==> final(self).log() == old(self).log().push(PolicyOp::UpdateCanStart(f@));
    fn reboot_allowed<'a>(&'a mut self, check_options: &'a CheckOptions, install_result: &'a Self::InstallResult) -> (f: BoxFuture<'a, bool>)
        ensures f.awaited() ==> final(self).log() == old(self).log().push(PolicyOp::RebootAllowed(*check_options, f@));
    fn reboot_needed<'a>(&'a mut self, install_plan: &'a Self::InstallPlan) -> (f: BoxFuture<'a, bool>)
        ensures f.awaited() ==> final(self).log() == old(self).log().push(PolicyOp::RebootNeeded(f@));
}

// ---------------- installer ----------------
pub trait Plan {
    fn id(&self) -> String;
}
pub enum InstallerOp { PerformInstall, PerformReboot }
pub trait Installer {
    type InstallPlan: Plan;
    type InstallResult;
    type Error;
    spec fn log(&self) -> Seq<InstallerOp>;
    fn perform_reboot<'a>(&'a mut self) -> (f: LocalBoxFuture<'a, Result<(), AnyhowError>>)
        ensures f.awaited() ==> final(self).log() == old(self).log().push(InstallerOp::PerformReboot);
    fn try_create_install_plan<'a>(&'a self, request_params: &'a RequestParams, request_metadata: Option<&'a RequestMetadata>,
        response: &'a Response, response_bytes: Vec<u8>, ecdsa_signature: Option<Vec<u8>>) -> LocalBoxFuture<'a, Result<Self::InstallPlan, Self::Error>>;
}

// ---------------- CUP ----------------
pub trait Cupv2Handler {
    /// the handler's verdict on an exchange (the contract of StandardCupv2Handler::verify_response
    /// is proved separately, C01; here any handler is allowed)
    spec fn accepts(&self, md: &RequestMetadata, resp: &HttpResponse<Vec<u8>>, id: PublicKeyId) -> bool;
    fn verify_response(&self, request_metadata: &RequestMetadata, resp: &HttpResponse<Vec<u8>>, public_key_id: PublicKeyId) -> (r: Result<DerSignature, CupVerificationError>)
        ensures r is Ok <==> self.accepts(request_metadata, resp, public_key_id);
}

// ---------------- app set ----------------
pub trait AppSet {
    spec fn apps(&self) -> Seq<App>;
    spec fn system_app_id(&self) -> Seq<char>;
    fn get_apps(&self) -> (r: Vec<App>)
        ensures r@ == self.apps();
    fn get_system_app_id(&self) -> (r: &str)
        ensures r@ == self.system_app_id();
    // ---- AppSetExt (provided methods; contracts proved of the real bodies in the app_set group)
    fn all_valid(&self) -> (r: bool)
        ensures r == (forall|i: int| 0 <= i < self.apps().len() ==> app_valid(#[trigger] self.apps()[i]));
    fn update_from_omaha(&mut self, app_responses: &[update_check::AppResponse])
        ensures final(self).apps() == apps_updated(old(self).apps(), app_responses@),
            final(self).system_app_id() == old(self).system_app_id();
    fn load<'a, VxI0: Storage>(&'a mut self, storage: &'a VxI0) -> (f: LocalBoxFuture<'a, ()>)
        ensures f.awaited() ==> final(self).apps().len() == old(self).apps().len()
            && final(self).system_app_id() == old(self).system_app_id()
            && (forall|i: int| 0 <= i < old(self).apps().len() ==> #[trigger] final(self).apps()[i] == app_load_result(old(self).apps()[i], storage.string_at(old(self).apps()[i].id@)));
    fn persist<'a, VxI0: Storage>(&'a self, storage: &'a mut VxI0) -> (f: LocalBoxFuture<'a, ()>)
        ensures f.awaited() ==> is_ext(old(storage).log(), final(storage).log())
            && app_persist_ops(self.apps(), final(storage).log().subrange(old(storage).log().len() as int, final(storage).log().len() as int));
}

// ---------------- futures combinators (completion conditions) ----------------
/// When does a (timer-built) future complete?  A leaf is one armed timer; `join` needs both sides,
/// `select` either side.  map / boxed / fuse do not change the condition.
pub enum WaitCond {
    Timer(TimerOp),
    Both(Box<WaitCond>, Box<WaitCond>),
    Either(Box<WaitCond>, Box<WaitCond>),
}
pub uninterp spec fn cond_of<F>(f: F) -> WaitCond;
#[verifier::external_body]
#[verifier::reject_recursive_types(F)]
pub struct Fuse<F> { _p: core::marker::PhantomData<F> }
#[verifier::external]
impl<F: Future> Future for Fuse<F> { type Output = F::Output; fn poll(self: Pin<&mut Self>, _cx: &mut TaskContext<'_>) -> Poll<F::Output> { unimplemented!() } }
#[verifier::external_body]
#[verifier::reject_recursive_types(A)]
#[verifier::reject_recursive_types(B)]
pub struct Join<A, B> { _p: core::marker::PhantomData<(A, B)> }
#[verifier::external]
impl<A: Future, B: Future> Future for Join<A, B> { type Output = (A::Output, B::Output); fn poll(self: Pin<&mut Self>, _cx: &mut TaskContext<'_>) -> Poll<Self::Output> { unimplemented!() } }
#[verifier::external_body]
#[verifier::reject_recursive_types(A)]
#[verifier::reject_recursive_types(B)]
pub struct Select<A, B> { _p: core::marker::PhantomData<(A, B)> }
#[verifier::external]
impl<A: Future, B: Future> Future for Select<A, B> { type Output = (); fn poll(self: Pin<&mut Self>, _cx: &mut TaskContext<'_>) -> Poll<Self::Output> { unimplemented!() } }
#[verifier::external_body]
#[verifier::reject_recursive_types(F)]
#[verifier::reject_recursive_types(U)]
pub struct MapFut<F, U> { _p: core::marker::PhantomData<(F, U)> }
#[verifier::external]
impl<F: Future, U> Future for MapFut<F, U> { type Output = U; fn poll(self: Pin<&mut Self>, _cx: &mut TaskContext<'_>) -> Poll<U> { unimplemented!() } }
pub mod future {
    use super::*;
    verus!{
    #[verifier::external_body]
    pub fn join<A: Future, B: Future>(a: A, b: B) -> (r: Join<A, B>)
        ensures cond_of(r) == WaitCond::Both(Box::new(cond_of(a)), Box::new(cond_of(b)))
    { unimplemented!() }
    #[verifier::external_body]
    pub fn select<A: Future, B: Future>(a: A, b: B) -> (r: Select<A, B>)
        ensures cond_of(r) == WaitCond::Either(Box::new(cond_of(a)), Box::new(cond_of(b)))
    { unimplemented!() }
    }
}
pub trait VxFutureExt: Future + Sized {
    fn boxed<'a>(self) -> (r: BoxFuture<'a, Self::Output>) ensures cond_of(r) == cond_of(self);
    fn fuse(self) -> (r: Fuse<Self>) ensures cond_of(r) == cond_of(self);
    fn map<U, G: FnOnce(Self::Output) -> U>(self, g: G) -> (r: MapFut<Self, U>) ensures cond_of(r) == cond_of(self);
}
impl<F: Future + Sized> VxFutureExt for F {
    #[verifier::external_body]
    fn boxed<'a>(self) -> (r: BoxFuture<'a, Self::Output>) { unimplemented!() }
    #[verifier::external_body]
    fn fuse(self) -> (r: Fuse<Self>) { unimplemented!() }
    #[verifier::external_body]
    fn map<U, G: FnOnce(Self::Output) -> U>(self, g: G) -> (r: MapFut<Self, U>) { unimplemented!() }
}

// ---------------- select! (R8), control channel ----------------
/// `select!` over 2 / 3 futures: which branch is taken is arbitrary (any scheduler); taking a branch
/// means that branch's future completed with the given value.
pub enum VxSel2<A, B> { A(A), B(B) }
pub enum VxSel3<A, B, C> { A(A), B(B), C(C) }
/// the future `f` has run to completion (for a timer-built future: its completion condition holds)
pub uninterp spec fn vx_done<F>(f: F) -> bool;
#[verifier::external_body]
pub async fn vx_join2<A: Future, B: Future>(a: A, b: B) -> (r: (A::Output, B::Output))
    ensures a.awaited() && b.awaited() && r.0 == a@ && r.1 == b@
{ unimplemented!() }
#[verifier::external_body]
pub async fn vx_select2<A: Future, B: Future>(a: A, b: B) -> (r: VxSel2<A::Output, B::Output>)
    ensures r is A ==> vx_done(a), r is B ==> vx_done(b)
{ unimplemented!() }
#[verifier::external_body]
pub async fn vx_select3<A: Future, B: Future, C: Future>(a: A, b: B, c: C) -> (r: VxSel3<A::Output, B::Output, C::Output>)
    ensures r is A ==> vx_done(a), r is B ==> vx_done(b), r is C ==> vx_done(c)
{ unimplemented!() }
pub mod mpsc {
    use super::*;
    verus!{
    #[verifier::external_body]
    #[verifier::reject_recursive_types(T)]
    pub struct Receiver<T> { _p: core::marker::PhantomData<T> }
    impl<T> Receiver<T> {
        /// StreamExt::select_next_some: the next control request (any request, at any time)
        #[verifier::external_body]
        pub fn select_next_some(&mut self) -> (f: BoxFuture<'_, T>) { unimplemented!() }
    }
    }
}
pub mod oneshot {
    use super::*;
    verus!{
    #[verifier::external_body]
    #[verifier::reject_recursive_types(T)]
    pub struct Sender<T> { _p: core::marker::PhantomData<T> }
    impl<T> Sender<T> {
        #[verifier::external_body]
        pub fn send(self, t: T) -> (r: Result<(), T>) { unimplemented!() }
    }
    }
}
/// polling a pinned, fused future through `&mut` (what select! does with a named future)
#[verifier::external_body]
#[verifier::reject_recursive_types(F)]
pub struct MutFut<'a, F> { _p: core::marker::PhantomData<&'a mut F> }
#[verifier::external]
impl<'a, F: Future> Future for MutFut<'a, F> { type Output = F::Output; fn poll(self: Pin<&mut Self>, _cx: &mut TaskContext<'_>) -> Poll<F::Output> { unimplemented!() } }
#[verifier::external_body]
pub fn vx_by_ref<'a, F: Future>(f: &'a mut F) -> (r: MutFut<'a, F>)
    ensures vx_done(r) ==> vx_done(*old(f)), cond_of(r) == cond_of(*old(f)), *final(f) == *old(f)
{ unimplemented!() }
