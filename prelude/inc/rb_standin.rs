// ===================================================================================
// TRUSTED INCLUDE (state-machine group only): RequestBuilder as an opaque type carrying
// the abstract view of rb_model.rs.  The same contracts are *proved* of the real
// RequestBuilder methods in the request_builder group (specs/request_builder.vspec).
// ===================================================================================
#[verifier::external_body] pub struct GUID { _p: u8 }
impl Clone for GUID { #[verifier::external_body] fn clone(&self) -> (r: Self) ensures r == *self { unimplemented!() } }
/// identity of the random draw behind a GUID (uuid v4): which call of GUID::new produced it
pub uninterp spec fn guid_draw(g: GUID) -> int;
impl GUID {
    /// a fresh random GUID (assumption: uuid::Uuid::new_v4 draws are pairwise distinct)
    #[verifier::external_body] pub fn new() -> (r: GUID) { unimplemented!() }
    /// GUID::new() with a ghost tag: how many HTTP exchanges the machine had made when the GUID was drawn.
    /// guid_epoch is a function of the GUID value, so the tag is consistent exactly under the stated
    /// assumption that draws never repeat (two draws at different epochs are different GUIDs).
    #[verifier::external_body] pub fn vx_new(Ghost(epoch): Ghost<nat>) -> (r: GUID) ensures guid_epoch(r) == epoch { unimplemented!() }
}
pub uninterp spec fn guid_epoch(g: GUID) -> nat;
#[verifier::external_body] pub struct RequestBuilder<'a> { _p: core::marker::PhantomData<&'a u8> }
/// the builder view a wire message was built from
pub uninterp spec fn msg_view(m: HttpRequestMsg) -> BuilderView;
impl<'a> RequestBuilder<'a> {
    pub uninterp spec fn view(&self) -> BuilderView;
    #[verifier::external_body]
    pub fn new(config: &'a Config, params: &RequestParams) -> (r: Self)
        ensures r@ == (BuilderView { params: *params, entries: Seq::empty(), request_id: None, session_id: None })
    { unimplemented!() }
    #[verifier::external_body]
    pub fn add_update_check(self, app: &App) -> (r: Self) ensures r@ == bv_add_update_check(self@, *app) { unimplemented!() }
    #[verifier::external_body]
    pub fn add_ping(self, app: &App) -> (r: Self) ensures r@ == bv_add_ping(self@, *app) { unimplemented!() }
    #[verifier::external_body]
    pub fn add_event(self, app: &App, event: Event) -> (r: Self) ensures r@ == bv_add_event(self@, *app, event) { unimplemented!() }
    #[verifier::external_body]
    pub fn request_id(self, request_id: GUID) -> (r: Self) ensures r@ == (BuilderView { request_id: Some(request_id), ..self@ }) { unimplemented!() }
    #[verifier::external_body]
    pub fn session_id(self, session_id: GUID) -> (r: Self) ensures r@ == (BuilderView { session_id: Some(session_id), ..self@ }) { unimplemented!() }
    /// build: the wire message carries exactly this builder's view; request metadata exists iff a
    /// CUP handler was given (the C03 facts about its content are proved in the cup_ecdsa /
    /// request_builder groups)
    #[verifier::external_body]
    pub fn build<CH: Cupv2Handler>(&self, cup_handler: Option<&CH>) -> (r: Result<(HttpRequestMsg, Option<RequestMetadata>), request_builder::Error>)
        ensures r is Ok ==> msg_view(r->Ok_0.0) == self@ && r->Ok_0.1 == msg_md(r->Ok_0.0) && (r->Ok_0.1 is Some <==> cup_handler is Some)
    { unimplemented!() }
}
