// ===================================================================================
// TRUSTED INCLUDE (storage group): value-carrying contracts of the futures combinators
// FutureExt::{map, boxed} and TryFutureExt::unwrap_or_else.  "r.awaited() ==> f.awaited()":
// the combined future completes only by running the inner future to completion, so every
// effect stated for the inner future's completion has happened.
// ===================================================================================
#[verifier::external_body]
#[verifier::reject_recursive_types(F)]
#[verifier::reject_recursive_types(U)]
pub struct MapFut<F, U> { _p: core::marker::PhantomData<(F, U)> }
#[verifier::external]
impl<F: Future, U> Future for MapFut<F, U> { type Output = U; fn poll(self: Pin<&mut Self>, _cx: &mut TaskContext<'_>) -> Poll<U> { unimplemented!() } }
pub trait VxFutureExt: Future + Sized {
    fn boxed<'a>(self) -> (r: BoxFuture<'a, Self::Output>)
        ensures r.awaited() ==> self.awaited() && r@ == self@;
    fn map<U, G: FnOnce(Self::Output) -> U>(self, g: G) -> (r: MapFut<Self, U>)
        requires forall|x: Self::Output| g.requires((x,)),
        ensures r.awaited() ==> self.awaited() && g.ensures((self@,), r@);
}
impl<F: Future + Sized> VxFutureExt for F {
    #[verifier::external_body]
    fn boxed<'a>(self) -> (r: BoxFuture<'a, Self::Output>) { unimplemented!() }
    #[verifier::external_body]
    fn map<U, G: FnOnce(Self::Output) -> U>(self, g: G) -> (r: MapFut<Self, U>) { unimplemented!() }
}
/// TryFutureExt::unwrap_or_else on a future of Result<T, E>
pub trait VxTryFutureExt<T, E>: Future<Output = Result<T, E>> + Sized {
    fn unwrap_or_else<G: FnOnce(E) -> T>(self, g: G) -> (r: MapFut<Self, T>)
        requires forall|e: E| g.requires((e,)),
        ensures r.awaited() ==> self.awaited() && (match self@ { Ok(v) => r@ == v, Err(e) => g.ensures((e,), r@) });
}
impl<T, E, F: Future<Output = Result<T, E>> + Sized> VxTryFutureExt<T, E> for F {
    #[verifier::external_body]
    fn unwrap_or_else<G: FnOnce(E) -> T>(self, g: G) -> (r: MapFut<Self, T>) { unimplemented!() }
}
