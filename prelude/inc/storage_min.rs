// ===================================================================================
// TRUSTED INCLUDE (apps group): the embedder's Storage trait, base methods only, with the
// same ghost log and read model as prelude/inc/env.rs.
// ===================================================================================
pub enum StorageOp {
    SetString(Seq<char>, Seq<char>, bool),   // key, value, succeeded
    SetInt(Seq<char>, i64, bool),
    SetBool(Seq<char>, bool, bool),
    Remove(Seq<char>, bool),
    Commit(bool),
}
pub trait Storage {
    type Error;
    /// every mutating operation issued so far, with whether it reported success
    spec fn log(&self) -> Seq<StorageOp>;
    /// what a read of `key` returns in the current state (unconstrained: any stored content)
    spec fn string_at(&self, key: Seq<char>) -> Option<Seq<char>>;
    fn get_string<'a>(&'a self, key: &'a str) -> (f: BoxFuture<'a, Option<String>>)
        ensures f.awaited() ==> (f@ is Some <==> self.string_at(key@) is Some) && (f@ is Some ==> f@->Some_0@ == self.string_at(key@)->Some_0);
    fn set_string<'a>(&'a mut self, key: &'a str, value: &'a str) -> (f: BoxFuture<'a, Result<(), Self::Error>>)
        ensures f.awaited() ==> final(self).log() == old(self).log().push(StorageOp::SetString(key@, value@, f@ is Ok));
}
