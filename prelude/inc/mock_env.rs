// ===================================================================================
// TRUSTED INCLUDE (mock server group): url::Url query parsing, hyper Bytes, P-256 signing.
// ===================================================================================
#[verifier::external_body] pub struct Bytes { _p: u8 }
impl Bytes { pub uninterp spec fn view(&self) -> Seq<u8>; }
impl VxBytes for Bytes { open spec fn vx_bytes(&self) -> Seq<u8> { self@ } }
#[verifier::external_body] pub struct PrivateKey { _p: u8 }   // p256::ecdsa::SigningKey
impl Clone for PrivateKey { #[verifier::external_body] fn clone(&self) -> (r: Self) ensures r == *self { unimplemented!() } }
/// the public half of a signing key
pub uninterp spec fn public_of(sk: PrivateKey) -> PublicKey;
/// DER bytes of the (deterministic, RFC 6979) signature of `msg` under `sk`
pub uninterp spec fn ecdsa_sign(sk: PrivateKey, msg: Seq<u8>) -> Seq<u8>;
/// a signature made with sk verifies under its public half and is well-formed DER
pub proof fn axiom_sign_then_verify(sk: PrivateKey, msg: Seq<u8>)
    ensures ecdsa_valid(public_of(sk), msg, ecdsa_sign(sk, msg)), der_wellformed(ecdsa_sign(sk, msg))
{ admit(); }
#[verifier::external_body] pub struct VxSignature { _p: u8 }
#[verifier::external_body] pub struct VxDerBytes { _p: u8 }
impl VxSignature {
    pub uninterp spec fn der(&self) -> Seq<u8>;
    #[verifier::external_body] pub fn to_der(&self) -> (r: VxDerBytes) ensures r.vx_bytes() == self.der() { unimplemented!() }
}
impl VxBytes for VxDerBytes { uninterp spec fn vx_bytes(&self) -> Seq<u8>; }
impl PrivateKey {
    /// Signer::sign (hashes the message with SHA-256 itself, like Verifier::verify)
    #[verifier::external_body]
    pub fn sign(&self, msg: &ShaOutput) -> (r: VxSignature) ensures r.der() == ecdsa_sign(*self, msg.bytes@) { unimplemented!() }
}
// ---- url::Url ----
#[verifier::external_body] pub struct Url { _p: u8 }
#[verifier::external_body] #[derive(Debug)] pub struct UrlParseError { _p: u8 }
/// a decoded query value/key (Cow<str>)
#[verifier::external_body] pub struct CowStr { _p: u8 }
impl CowStr {
    pub uninterp spec fn view(&self) -> Seq<char>;
    #[verifier::external_body]
    pub fn split_once(&self, c: char) -> (r: Option<(&str, &str)>)
        requires c == ':'
        ensures
            r is Some <==> first_colon(self@) is Some,
            r is Some ==> r->Some_0.0@ == self@.subrange(0, first_colon(self@)->Some_0) && r->Some_0.1@ == self@.subrange(first_colon(self@)->Some_0 + 1, self@.len() as int),
    { unimplemented!() }
}
impl VxBytes for CowStr { open spec fn vx_bytes(&self) -> Seq<u8> { utf8(self@) } }
impl vstd::std_specs::cmp::PartialEqSpecImpl<&'static str> for CowStr {
    open spec fn obeys_eq_spec() -> bool { true }
    open spec fn eq_spec(&self, other: &&'static str) -> bool { self@ == other@ }
}
impl PartialEq<&'static str> for CowStr {
    #[verifier::external_body]
    fn eq(&self, other: &&'static str) -> (b: bool) ensures b == (self@ == other@) { unimplemented!() }
}
impl vstd::std_specs::cmp::PartialEqSpecImpl<str> for CowStr {
    open spec fn obeys_eq_spec() -> bool { true }
    open spec fn eq_spec(&self, other: &str) -> bool { self@ == other@ }
}
impl PartialEq<str> for CowStr {
    #[verifier::external_body]
    fn eq(&self, other: &str) -> (b: bool) ensures b == (self@ == other@) { unimplemented!() }
}
/// decoded (key, value) pairs of the query of a request target, in order (form_urlencoded::parse)
pub uninterp spec fn query_pairs_of(target: Seq<char>) -> Seq<(Seq<char>, Seq<char>)>;
impl Url {
    /// the request target (path[?query]) this URL was parsed from
    pub uninterp spec fn target(&self) -> Seq<char>;
    #[verifier::external_body]
    pub fn query_pairs(&self) -> (r: QueryPairs<'_>) ensures pair_views(r.rest()) == query_pairs_of(self.target()) { unimplemented!() }
}
/// Url::parse("https://example.com" + target): succeeds for every request target hyper delivers
pub uninterp spec fn valid_request_target(t: Seq<char>) -> bool;
pub open spec fn pair_views(s: Seq<(CowStr, CowStr)>) -> Seq<(Seq<char>, Seq<char>)> {
    Seq::new(s.len(), |i: int| (s[i].0@, s[i].1@))
}
#[verifier::external_body] pub struct QueryPairs<'a> { _p: core::marker::PhantomData<&'a u8> }
impl<'a> QueryPairs<'a> {
    /// pairs not yet consumed
    pub uninterp spec fn rest(&self) -> Seq<(CowStr, CowStr)>;
    #[verifier::external_body]
    pub fn next(&mut self) -> (r: Option<(CowStr, CowStr)>)
        ensures
            old(self).rest().len() == 0 ==> r is None && final(self).rest() == old(self).rest(),
            old(self).rest().len() > 0 ==> r is Some && r->Some_0 == old(self).rest()[0]
                && final(self).rest() == old(self).rest().drop_first(),
    { unimplemented!() }
    /// Iterator::find: the first remaining pair the predicate accepts; everything before it was rejected
    #[verifier::external_body]
    pub fn find<P: FnMut(&(CowStr, CowStr)) -> bool>(&mut self, p: P) -> (r: Option<(CowStr, CowStr)>)
        requires forall|x: &(CowStr, CowStr)| p.requires((x,)),
        ensures
            r is None ==> (forall|i: int| 0 <= i < old(self).rest().len() ==> p.ensures((&#[trigger] old(self).rest()[i],), false)),
            r is Some ==> (exists|i: int| 0 <= i < old(self).rest().len() && r->Some_0 == #[trigger] old(self).rest()[i]
                && p.ensures((&old(self).rest()[i],), true)
                && (forall|j: int| 0 <= j < i ==> p.ensures((&#[trigger] old(self).rest()[j],), false))),
    { unimplemented!() }
}
