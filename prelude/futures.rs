// ===================================================================================
// TRUSTED PRELUDE: stand-ins for futures / Rc<Mutex<_>> / the async generator handle.
// Nothing here is verified; each contract is the documented meaning of the dependency,
// projected on the ghost state the contracts of /repo functions talk about.
// ===================================================================================
#[verifier::external_body]
#[verifier::reject_recursive_types(T)]
pub struct BoxFuture<'a, T> { _p: core::marker::PhantomData<&'a T> }
#[verifier::external]
impl<'a, T> Future for BoxFuture<'a, T> {
    type Output = T;
    fn poll(self: Pin<&mut Self>, _cx: &mut TaskContext<'_>) -> Poll<T> { unimplemented!() }
}
pub type LocalBoxFuture<'a, T> = BoxFuture<'a, T>;

/// `Rc<futures::lock::Mutex<T>>`, modelled as uniquely owned: `lock().await` yields `&mut T`.
/// Assumption: nobody else mutates the shared object between two critical sections of the
/// state machine (DESIGN 3.3 "Shared handles").
pub struct Mutex<T> { pub inner: T }
pub struct Rc<T> { pub inner: T }
impl<T> Rc<Mutex<T>> {
    #[verifier::external_body]
    pub fn lock<'a>(&'a mut self) -> (f: BoxFuture<'a, &'a mut T>)
        ensures f.awaited() ==> *f@ == old(self).inner.inner && *final(f@) == final(self).inner.inner
    { unimplemented!() }
}

/// async_generator::Yield<I>: the handle through which the state machine emits events.
/// View: the sequence of items emitted so far (emission order inside the one producer task).
pub mod async_generator {
    use super::*;
    verus!{
    #[verifier::external_body]
    #[verifier::reject_recursive_types(I)]
    pub struct Yield<I> { _p: core::marker::PhantomData<I> }
    impl<I> Yield<I> {
        pub uninterp spec fn view(&self) -> Seq<I>;
        #[verifier::external_body]
        pub fn yield_<'a>(&'a mut self, item: I) -> (f: BoxFuture<'a, ()>)
            ensures f.awaited() ==> final(self)@ == old(self)@.push(item)
        { unimplemented!() }
    }
    }
}
