// ---- abstract view of a RequestBuilder (shared by the request_builder group, where it is
// ---- proved of the real builder, and by the state-machine group, where it is assumed) ----
pub struct EntryView {
    pub app: App,
    /// Some((disabled, offer_update_if_same_version)) when an update check was added
    pub update_check: Option<(bool, bool)>,
    pub ping: bool,
    pub events: Seq<Event>,
}
pub struct BuilderView {
    pub params: RequestParams,
    pub entries: Seq<EntryView>,
    pub request_id: Option<GUID>,
    pub session_id: Option<GUID>,
}
/// index of the first entry whose app id equals `id`
pub open spec fn bv_find(entries: Seq<EntryView>, id: Seq<char>) -> Option<int>
    decreases entries.len()
{
    if entries.len() == 0 {
        None
    } else if entries[0].app.id@ == id {
        Some(0int)
    } else {
        match bv_find(entries.drop_first(), id) { Some(i) => Some(i + 1), None => None }
    }
}
pub open spec fn bv_new_entry(app: App) -> EntryView {
    EntryView { app: app, update_check: None, ping: false, events: Seq::empty() }
}
/// merge-by-id: the first insertion fixes position and app data (cohort included)
pub open spec fn bv_modify(v: BuilderView, app: App, f: spec_fn(EntryView) -> EntryView) -> BuilderView {
    match bv_find(v.entries, app.id@) {
        Some(i) => BuilderView { entries: v.entries.update(i, f(v.entries[i])), ..v },
        None => BuilderView { entries: v.entries.push(f(bv_new_entry(app))), ..v },
    }
}
pub open spec fn bv_add_update_check(v: BuilderView, app: App) -> BuilderView {
    bv_modify(v, app, |e: EntryView| EntryView { update_check: Some((v.params.disable_updates, v.params.offer_update_if_same_version)), ..e })
}
pub open spec fn bv_add_ping(v: BuilderView, app: App) -> BuilderView {
    bv_modify(v, app, |e: EntryView| EntryView { ping: true, ..e })
}
pub open spec fn bv_add_event(v: BuilderView, app: App, event: Event) -> BuilderView {
    bv_modify(v, app, |e: EntryView| EntryView { events: e.events.push(event), ..e })
}
pub proof fn lemma_bv_find(entries: Seq<EntryView>, id: Seq<char>)
    ensures
        bv_find(entries, id) is Some ==> 0 <= bv_find(entries, id)->Some_0 < entries.len() && entries[bv_find(entries, id)->Some_0].app.id@ == id
            && (forall|j: int| 0 <= j < bv_find(entries, id)->Some_0 ==> (#[trigger] entries[j]).app.id@ != id),
        bv_find(entries, id) is None ==> (forall|j: int| 0 <= j < entries.len() ==> (#[trigger] entries[j]).app.id@ != id),
    decreases entries.len()
{
    if entries.len() > 0 && entries[0].app.id@ != id {
        lemma_bv_find(entries.drop_first(), id);
        assert forall|j: int| 0 <= j < entries.len() && (bv_find(entries, id) is None || j < bv_find(entries, id)->Some_0) implies (#[trigger] entries[j]).app.id@ != id by {
            if j > 0 { assert(entries.drop_first()[j - 1] == entries[j]); }
        }
    }
}
