// ---- the announced states, as a function of the event log (C04) ----
pub open spec fn states_of(e: Seq<StateMachineEvent>) -> Seq<State>
    decreases e.len()
{
    if e.len() == 0 {
        Seq::empty()
    } else {
        let p = states_of(e.drop_last());
        match e.last() {
            StateMachineEvent::StateChange(s) => p.push(s),
            _ => p,
        }
    }
}
pub proof fn lemma_states_push_state(e: Seq<StateMachineEvent>, s: State)
    ensures states_of(e.push(StateMachineEvent::StateChange(s))) == states_of(e).push(s)
{
    assert(e.push(StateMachineEvent::StateChange(s)).drop_last() =~= e);
}
pub proof fn lemma_states_push_other(e: Seq<StateMachineEvent>, x: StateMachineEvent)
    requires !(x is StateChange)
    ensures states_of(e.push(x)) == states_of(e)
{
    assert(e.push(x).drop_last() =~= e);
}
/// a block of events without any StateChange leaves the announced states unchanged
pub proof fn lemma_states_ext_no_state_change(a: Seq<StateMachineEvent>, b: Seq<StateMachineEvent>)
    requires
        is_ext(a, b),
        forall|i: int| a.len() <= i < b.len() ==> !(#[trigger] b[i] is StateChange),
    ensures states_of(b) == states_of(a)
    decreases b.len() - a.len()
{
    if b.len() == a.len() {
        assert(a =~= b);
    } else {
        let b1 = b.drop_last();
        assert(is_ext(a, b1));
        assert forall|i: int| a.len() <= i < b1.len() implies !(#[trigger] b1[i] is StateChange) by {
            assert(b1[i] == b[i]);
        }
        lemma_states_ext_no_state_change(a, b1);
        assert(!(b[b.len() - 1] is StateChange));
    }
}

// ---- the server responses announced, as a function of the event log (C04) ----
pub open spec fn responses_of(e: Seq<StateMachineEvent>) -> Seq<Response>
    decreases e.len()
{
    if e.len() == 0 {
        Seq::empty()
    } else {
        let p = responses_of(e.drop_last());
        match e.last() {
            StateMachineEvent::OmahaServerResponse(r) => p.push(r),
            _ => p,
        }
    }
}
pub proof fn lemma_responses_push_response(e: Seq<StateMachineEvent>, r: Response)
    ensures responses_of(e.push(StateMachineEvent::OmahaServerResponse(r))) == responses_of(e).push(r)
{
    assert(e.push(StateMachineEvent::OmahaServerResponse(r)).drop_last() =~= e);
}
pub proof fn lemma_responses_push_other(e: Seq<StateMachineEvent>, x: StateMachineEvent)
    requires !(x is OmahaServerResponse)
    ensures responses_of(e.push(x)) == responses_of(e)
{
    assert(e.push(x).drop_last() =~= e);
}
pub proof fn lemma_responses_ext_none(a: Seq<StateMachineEvent>, b: Seq<StateMachineEvent>)
    requires
        is_ext(a, b),
        forall|i: int| a.len() <= i < b.len() ==> !(#[trigger] b[i] is OmahaServerResponse),
    ensures responses_of(b) == responses_of(a)
    decreases b.len() - a.len()
{
    if b.len() == a.len() {
        assert(a =~= b);
    } else {
        let b1 = b.drop_last();
        assert(is_ext(a, b1));
        assert forall|i: int| a.len() <= i < b1.len() implies !(#[trigger] b1[i] is OmahaServerResponse) by {
            assert(b1[i] == b[i]);
        }
        lemma_responses_ext_none(a, b1);
        assert(!(b[b.len() - 1] is OmahaServerResponse));
    }
}
