// ---- small sequence vocabulary used by the log contracts ----
/// `new` extends `old` (old is a prefix of new)
pub open spec fn is_ext<T>(old: Seq<T>, new: Seq<T>) -> bool {
    new.len() >= old.len() && (forall|i: int| 0 <= i < old.len() ==> #[trigger] new[i] == old[i])
}
/// the block by which `new` extends `old`
pub open spec fn log_ext<T>(old: Seq<T>, new: Seq<T>) -> Seq<T>
    recommends new.len() >= old.len()
{
    new.subrange(old.len() as int, new.len() as int)
}
pub proof fn lemma_is_ext_trans<T>(a: Seq<T>, b: Seq<T>, c: Seq<T>)
    requires is_ext(a, b), is_ext(b, c)
    ensures is_ext(a, c)
{
    assert forall|i: int| 0 <= i < a.len() implies #[trigger] c[i] == a[i] by {
        assert(b[i] == a[i]);
        assert(c[i] == b[i]);
    }
}
pub proof fn lemma_is_ext_push<T>(a: Seq<T>, x: T)
    ensures is_ext(a, a.push(x))
{
}
