//@owner time
// ---- mathematical model of the microsecond storage encoding (C19) ----
pub open spec fn I64_MIN() -> int { -0x8000_0000_0000_0000 }
pub open spec fn I64_MAX() -> int { 0x7fff_ffff_ffff_ffff }
pub open spec fn fits_i64(x: int) -> bool { I64_MIN() <= x <= I64_MAX() }

/// integer division truncating toward zero ("toward the epoch")
pub open spec fn trunc_div(a: int, b: int) -> int
    recommends b > 0
{
    if a >= 0 { a / b } else { -((-a) / b) }
}

/// the storage encoding of a wall time given as signed ns from the epoch
pub open spec fn spec_to_micros(ns: int) -> Option<i64> {
    let m = trunc_div(ns, 1000);
    if fits_i64(m) { Some(m as i64) } else { None }
}

/// the wall time (ns from the epoch) denoted by a stored microsecond count
pub open spec fn spec_from_micros(m: i64) -> int { m as int * 1000 }

/// truncation of a wall time to storage precision
pub open spec fn spec_trunc_ns(ns: int) -> int { trunc_div(ns, 1000) * 1000 }

/*@lemma C19.micros_roundtrip_identity*/
pub proof fn lemma_micros_roundtrip(m: i64)
    ensures
        spec_to_micros(spec_from_micros(m)) == Some(m),
{
    let ns = spec_from_micros(m);
    if m >= 0 {
        assert(ns / 1000 == m as int);
    } else {
        assert((-ns) / 1000 == -(m as int));
    }
}

/*@lemma C19.store_reload_same_instant_at_micro_precision*/
pub proof fn lemma_store_reload(ns: int)
    requires
        spec_to_micros(ns) is Some,
    ensures
        spec_from_micros(spec_to_micros(ns)->Some_0) == spec_trunc_ns(ns),
        spec_to_micros(spec_from_micros(spec_to_micros(ns)->Some_0)) == spec_to_micros(ns),
{
    lemma_micros_roundtrip(spec_to_micros(ns)->Some_0);
}

/*@lemma C19.truncate_idempotent*/
pub proof fn lemma_trunc_idempotent(ns: int)
    ensures
        spec_trunc_ns(spec_trunc_ns(ns)) == spec_trunc_ns(ns),
{
    let q = trunc_div(ns, 1000);
    if ns >= 0 {
        assert((q * 1000) / 1000 == q);
    } else {
        assert(q <= 0);
        if q == 0 {
        } else {
            assert((-(q * 1000)) / 1000 == -q);
        }
    }
}
