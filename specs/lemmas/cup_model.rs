// ---- CUPv2 exchange model shared by the client verifier (C01/C03) and the mock server (C17) ----
/// str::split_once(':'): split at the first colon
pub open spec fn first_colon(s: Seq<char>) -> Option<int>
    decreases s.len()
{
    if s.len() == 0 { None } else if s[0] == ':' { Some(0int) } else { match first_colon(s.drop_first()) { Some(i) => Some(i + 1), None => None } }
}
/// parse_etag's meaning: strip W/"…" or "…"; anything else is left unchanged
pub open spec fn strip_etag(s: Seq<char>) -> Seq<char> {
    if s.len() >= 4 && s[0] == 'W' && s[1] == '/' && s[2] == '"' && s[s.len() - 1] == '"' { s.subrange(3, s.len() - 1) }
    else if s.len() >= 2 && s[0] == '"' && s[s.len() - 1] == '"' { s.subrange(1, s.len() - 1) }
    else { s }
}
/// the cup2key query value the client sends: "<key id>:<nonce hex>"
pub open spec fn cup2key_value(id: u64, nonce: Seq<u8>) -> Seq<char> {
    dec_str(id as nat) + ":"@ + hex_encode(nonce)
}
/// the message whose SHA-256 is signed: SHA-256(request) || SHA-256(response) || "<key id>:<nonce hex>"
pub open spec fn cup_tx_input(req: Seq<u8>, resp: Seq<u8>, id: u64, nonce: Seq<u8>) -> Seq<u8> {
    sha256(req) + sha256(resp) + utf8(cup2key_value(id, nonce))
}
/// the client accepts ETag text `etag` for the exchange (req, resp) made under key id `id` with `nonce`
pub open spec fn cup_etag_accepts(keys: Map<u64, PublicKey>, req: Seq<u8>, resp: Seq<u8>, id: u64, nonce: Seq<u8>, etag: Seq<char>) -> bool {
    let t = strip_etag(etag);
    &&& first_colon(t) is Some
    &&& ({
        let s = t.subrange(0, first_colon(t)->Some_0);
        let hh = t.subrange(first_colon(t)->Some_0 + 1, t.len() as int);
        &&& hex_decode(hh) == Some(sha256(req))
        &&& hex_decode(s) is Some
        &&& der_wellformed(hex_decode(s)->Some_0)
        &&& keys.contains_key(id)
        &&& ecdsa_valid(keys[id], sha256(cup_tx_input(req, resp, id, nonce)), hex_decode(s)->Some_0)
    })
}
/// the first colon of a + ":" + b is at a.len() when a has none
pub proof fn lemma_first_colon_concat(a: Seq<char>, b: Seq<char>)
    requires forall|i: int| 0 <= i < a.len() ==> a[i] != ':',
    ensures first_colon(a + ":"@ + b) == Some(a.len() as int),
    decreases a.len()
{
    reveal_strlit(":");
    let s = a + ":"@ + b;
    if a.len() == 0 {
        assert(s[0] == ':');
    } else {
        assert(s[0] == a[0]);
        assert(s.drop_first() =~= a.drop_first() + ":"@ + b);
        lemma_first_colon_concat(a.drop_first(), b);
    }
}
