// ---- abstract model of cohort / user-counting bookkeeping (C09) and app validity (C05) ----
pub open spec fn cohort_merge(c: Cohort, o: Cohort) -> Cohort {
    Cohort {
        id: if o.id is Some { o.id } else { c.id },
        hint: if o.hint is Some { o.hint } else { c.hint },
        name: if o.name is Some { o.name } else { c.name },
    }
}
/// index of the first response entry naming app `id`
pub open spec fn first_response_for(id: Seq<char>, rs: Seq<update_check::AppResponse>) -> Option<int>
    decreases rs.len()
{
    if rs.len() == 0 {
        None
    } else if rs[0].app_id@ == id {
        Some(0int)
    } else {
        match first_response_for(id, rs.drop_first()) { Some(i) => Some(i + 1), None => None }
    }
}
pub open spec fn app_updated(a: App, rs: Seq<update_check::AppResponse>) -> App {
    match first_response_for(a.id@, rs) {
        Some(j) => App { cohort: cohort_merge(a.cohort, rs[j].cohort), user_counting: rs[j].user_counting, ..a },
        None => a,
    }
}
pub open spec fn apps_updated(apps: Seq<App>, rs: Seq<update_check::AppResponse>) -> Seq<App> {
    Seq::new(apps.len(), |i: int| app_updated(apps[i], rs))
}
pub open spec fn app_valid(a: App) -> bool {
    a.id@.len() > 0 && a.version != Version([0u32, 0u32, 0u32, 0u32])
}
/// serde_json::to_string(&PersistedApp::from(app)); None stands for a serialisation error
pub uninterp spec fn app_json(a: App) -> Option<Seq<char>>;
/// the storage operations `AppSetExt::persist` issues: one SetString(app id, json) per app, in order
pub open spec fn app_persist_ops(apps: Seq<App>, ops: Seq<StorageOp>) -> bool
    decreases apps.len()
{
    if apps.len() == 0 {
        ops.len() == 0
    } else if app_json(apps[0]) is None {
        app_persist_ops(apps.drop_first(), ops)
    } else {
        ops.len() > 0 && (ops[0] matches StorageOp::SetString(k, v, _) && k == apps[0].id@ && v == app_json(apps[0])->Some_0)
            && app_persist_ops(apps.drop_first(), ops.drop_first())
    }
}
/// extending the searched prefix by one response: the first match stays, or is the new one, or none
pub proof fn lemma_first_response_take(id: Seq<char>, rs: Seq<update_check::AppResponse>, j: int)
    requires 0 <= j < rs.len(), first_response_for(id, rs.take(j)) is None,
    ensures
        rs[j].app_id@ == id ==> first_response_for(id, rs) == Some(j),
        rs[j].app_id@ != id ==> first_response_for(id, rs.take(j + 1)) is None,
        j + 1 == rs.len() ==> rs.take(j + 1) =~= rs,
    decreases j
{
    if j == 0 {
        assert(rs.take(1).drop_first() =~= Seq::<update_check::AppResponse>::empty());
        assert(rs.take(1)[0] == rs[0]);
        assert(rs.take(0) =~= Seq::<update_check::AppResponse>::empty());
    } else {
        assert(rs.drop_first()[j - 1] == rs[j]);
        assert(rs.take(j)[0] == rs[0]);
        assert(rs.take(j).drop_first() =~= rs.drop_first().take(j - 1));
        assert(rs.take(j + 1).drop_first() =~= rs.drop_first().take(j));
        assert(rs.take(j + 1)[0] == rs[0]);
        lemma_first_response_take(id, rs.drop_first(), j - 1);
    }
}
// ---- restoring an app from its persisted record (App::load / AppSetExt::load) ----
/// serde_json::from_str::<PersistedApp>: what a stored JSON text decodes to (None: not a PersistedApp)
pub uninterp spec fn persisted_app_of(json: Seq<char>) -> Option<PersistedApp>;
/// what App::load leaves in an app given the stored record: only unset fields are filled
pub open spec fn app_loaded(a: App, p: PersistedApp) -> App {
    App {
        cohort: Cohort {
            id: if a.cohort.id is None { p.cohort.id } else { a.cohort.id },
            hint: if a.cohort.hint is None { p.cohort.hint } else { a.cohort.hint },
            name: if a.cohort.name is None { p.cohort.name } else { a.cohort.name },
        },
        user_counting: if a.user_counting == UserCounting::ClientRegulatedByDate(None) { p.user_counting } else { a.user_counting },
        ..a
    }
}
/// what App::load leaves in an app given what storage holds under its id
pub open spec fn app_load_result(a: App, stored: Option<Seq<char>>) -> App {
    match stored {
        Some(json) => match persisted_app_of(json) { Some(p) => app_loaded(a, p), None => a },
        None => a,
    }
}
