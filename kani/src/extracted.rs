// generated
