//! Kani harnesses over the real omaha-client crate (path dependency on the current /repo) and over
//! private functions whose text is extracted mechanically into `extracted.rs` on every run.
//! Loop-free harnesses over full-domain symbolic inputs are complete proofs; the others are
//! bounded stand-ins and are labelled as such by tools/kani_units.py.
#![allow(unused)]

#[cfg(kani)]
mod extracted;

#[cfg(kani)]
mod harnesses {
    use omaha_client::version::Version;

    fn lex_cmp(a: [u32; 4], b: [u32; 4]) -> core::cmp::Ordering {
        // numeric, component-wise, left to right (written without loops)
        if a[0] != b[0] { return if a[0] < b[0] { core::cmp::Ordering::Less } else { core::cmp::Ordering::Greater }; }
        if a[1] != b[1] { return if a[1] < b[1] { core::cmp::Ordering::Less } else { core::cmp::Ordering::Greater }; }
        if a[2] != b[2] { return if a[2] < b[2] { core::cmp::Ordering::Less } else { core::cmp::Ordering::Greater }; }
        if a[3] != b[3] { return if a[3] < b[3] { core::cmp::Ordering::Less } else { core::cmp::Ordering::Greater }; }
        core::cmp::Ordering::Equal
    }

    /// C20: ordering and equality are numeric, component-wise, left to right (all 2^256 pairs)
    #[kani::proof]
    fn c20_version_order_is_numeric_lexicographic() {
        let a: [u32; 4] = kani::any();
        let b: [u32; 4] = kani::any();
        let va = Version::from(a);
        let vb = Version::from(b);
        let expect = lex_cmp(a, b);
        assert!(va.cmp(&vb) == expect);
        assert!(va.partial_cmp(&vb) == Some(expect));
        assert!((va == vb) == (expect == core::cmp::Ordering::Equal));
        assert!((va < vb) == (expect == core::cmp::Ordering::Less));
        assert!((va >= vb) == (expect != core::cmp::Ordering::Less));
    }

    /// C20: conversion from 1-4 element arrays zero-fills (covers the impl_from! macro output)
    #[kani::proof]
    fn c20_version_from_arrays_zero_fills() {
        let a: [u32; 4] = kani::any();
        assert!(Version::from([a[0]]) == Version::from([a[0], 0, 0, 0]));
        assert!(Version::from([a[0], a[1]]) == Version::from([a[0], a[1], 0, 0]));
        assert!(Version::from([a[0], a[1], a[2]]) == Version::from([a[0], a[1], a[2], 0]));
        // and the four components are kept in place
        let b: [u32; 4] = kani::any();
        assert!((Version::from(a) == Version::from(b)) == (a == b));
    }

    // ------------------------------------------------------------------ C01: parse_etag
    /// Bounded stand-in (length <= ETAG_MAX bytes, visible ASCII as HeaderValue::to_str guarantees):
    /// pointer/length oracle for the three cases W/"..", "..", other; no panic; the unchecked
    /// conversion is applied to a sub-slice delimited by ASCII bytes.
    const ETAG_MAX: usize = 64;
    #[kani::proof]
    #[kani::unwind(66)]
    fn c01_parse_etag_strips_exactly_quotes_and_weak_prefix() {
        let len: usize = kani::any();
        kani::assume(len <= ETAG_MAX);
        let buf: [u8; ETAG_MAX] = kani::any();
        let mut i = 0;
        while i < ETAG_MAX {
            // HeaderValue::to_str succeeds only for visible ASCII (32..=126) and tab
            kani::assume(buf[i] == 9 || (buf[i] >= 32 && buf[i] < 127));
            i += 1;
        }
        let bytes = &buf[..len];
        let s = unsafe { core::str::from_utf8_unchecked(bytes) };
        let r = super::extracted::parse_etag(s);
        let base = s.as_ptr() as usize;
        let rp = r.as_ptr() as usize;
        let q = b'"';
        if len >= 4 && bytes[0] == b'W' && bytes[1] == b'/' && bytes[2] == q && bytes[len - 1] == q {
            assert!(rp == base + 3 && r.len() == len - 4);
        } else if len >= 2 && bytes[0] == q && bytes[len - 1] == q {
            assert!(rp == base + 1 && r.len() == len - 2);
        } else {
            assert!(rp == base && r.len() == len);
        }
    }

    // ------------------------------------------------------------------ C14: parse_safe_json
    /// Bounded stand-in (body length <= 12; the function looks at the first five bytes and the length
    /// only): no panic, and serde_json::from_slice (replaced by a recorder in extracted.rs) receives the
    /// body minus the guard `)]}'\\n` iff the body starts with the guard, else the whole body.
    const BODY_MAX: usize = 12;
    #[kani::proof]
    #[kani::unwind(14)]
    fn c14_parse_safe_json_strips_exactly_the_guard_and_never_panics() {
        let len: usize = kani::any();
        kani::assume(len <= BODY_MAX);
        let buf: [u8; BODY_MAX] = kani::any();
        let body = &buf[..len];
        let _ = super::extracted::parse_safe_json::<()>(body);
        let base = body.as_ptr() as usize;
        let (p, l) = unsafe { (super::extracted::SEEN_PTR, super::extracted::SEEN_LEN) };
        let guarded = len >= 5 && buf[0] == b')' && buf[1] == b']' && buf[2] == b'}' && buf[3] == b'\'' && buf[4] == b'\n';
        if guarded {
            assert!(p == base + 5 && l == len - 5);
        } else {
            assert!(p == base && l == len);
        }
    }

    // ------------------------------------------------------------------ C09: update_from_omaha
    use omaha_client::app_set::{AppSet, AppSetExt, VecAppSet};
    use omaha_client::common::{App, UserCounting};
    use omaha_client::protocol::Cohort;
    use omaha_client::state_machine::update_check::{Action, AppResponse};

    /// HashMap's RandomState draws its keys from the OS (a syscall Kani cannot model); the hasher keys
    /// are irrelevant to every property checked here, so fixed keys are substituted (-Z stubbing).
    fn fixed_random_state() -> std::collections::hash_map::RandomState {
        unsafe { core::mem::transmute::<(u64, u64), std::collections::hash_map::RandomState>((0, 0)) }
    }

    fn pick_id(k: u8) -> &'static str {
        match k % 3 { 0 => "a", 1 => "b", _ => "c" }
    }
    fn pick_opt(k: u8, tag: &'static str) -> Option<String> {
        match k % 3 { 0 => None, 1 => Some(String::new()), _ => Some(tag.to_string()) }
    }
    fn merged(c: &Cohort, o: &Cohort) -> Cohort {
        Cohort {
            id: if o.id.is_some() { o.id.clone() } else { c.id.clone() },
            hint: if o.hint.is_some() { o.hint.clone() } else { c.hint.clone() },
            name: if o.name.is_some() { o.name.clone() } else { c.name.clone() },
        }
    }
    fn mk_app(k: u8) -> App {
        App::builder().id(pick_id(k)).version([1, 2]).cohort(Cohort { id: Some("old".to_string()), hint: None, name: Some("n".to_string()) }).build()
    }
    fn mk_resp(k: u8, c0: u8, c1: u8, c2: u8, day: Option<u32>, tag: &'static str) -> AppResponse {
        AppResponse { app_id: pick_id(k).to_string(), cohort: Cohort { id: pick_opt(c0, tag), hint: pick_opt(c1, tag), name: pick_opt(c2, tag) },
                      user_counting: UserCounting::ClientRegulatedByDate(day), result: Action::NoUpdate }
    }
    fn expect(app0: &App, after: &App, responses: &[AppResponse]) {
        let mut first: Option<usize> = None;
        let mut j = 0;
        while j < responses.len() {
            if first.is_none() && responses[j].app_id == app0.id { first = Some(j); }
            j += 1;
        }
        match first {
            Some(j) => {
                assert!(after.cohort == merged(&app0.cohort, &responses[j].cohort));
                assert!(after.user_counting == responses[j].user_counting);
            }
            None => {
                assert!(after.cohort == app0.cohort);
                assert!(after.user_counting == app0.user_counting);
            }
        }
        assert!(after.id == app0.id && after.version == app0.version);
    }
    /// Bounded stand-in (1 app x 1 response; ids from {a,b}; each cohort field absent / present-empty /
    /// present): a named app gets the field-wise merge and the response's user counting; otherwise unchanged.
    #[kani::proof]
    #[kani::unwind(3)]
    #[kani::stub(std::collections::hash_map::RandomState::new, fixed_random_state)]
    fn c09_update_from_omaha_fieldwise_merge_one_app() {
        let same: bool = kani::any();
        let cf: [u8; 3] = kani::any();
        let day: Option<u32> = kani::any();
        let apps0 = vec![mk_app(0)];
        let mut set = VecAppSet::new(apps0.clone());
        let responses = vec![mk_resp(if same { 0 } else { 1 }, cf[0], cf[1], cf[2], day, "r0")];
        set.update_from_omaha(&responses);
        let after = set.get_apps();
        assert!(after.len() == 1);
        expect(&apps0[0], &after[0], &responses);
    }
    /// Bounded stand-in (2 apps x 2 responses, fixed cohort content, ids symbolic over {a,b,c}): routing by
    /// id, FIRST matching entry wins, every app is visited, unnamed apps unchanged.
    #[kani::proof]
    #[kani::unwind(4)]
    #[kani::stub(std::collections::hash_map::RandomState::new, fixed_random_state)]
    fn c09_update_from_omaha_routes_by_id_first_match_all_apps() {
        let ka: [u8; 2] = kani::any();
        let kr: [u8; 2] = kani::any();
        let apps0 = vec![mk_app(ka[0]), mk_app(ka[1])];
        let mut set = VecAppSet::new(apps0.clone());
        let responses = vec![mk_resp(kr[0], 2, 0, 1, Some(7), "r0"), mk_resp(kr[1], 0, 2, 2, None, "r1")];
        set.update_from_omaha(&responses);
        let after = set.get_apps();
        assert!(after.len() == 2);
        expect(&apps0[0], &after[0], &responses);
        expect(&apps0[1], &after[1], &responses);
    }

    // ------------------------------------------------------------------ C05: App::valid
    /// valid <=> id non-empty and version != 0.0.0.0 (all versions; id from {"", "x"})
    #[kani::proof]
    #[kani::stub(std::collections::hash_map::RandomState::new, fixed_random_state)]
    fn c05_app_valid_iff_id_nonempty_and_version_nonzero() {
        let v: [u32; 4] = kani::any();
        let empty: bool = kani::any();
        let app = App::builder().id(if empty { "" } else { "x" }).version(v).build();
        assert!(app.valid() == (!empty && v != [0, 0, 0, 0]));
    }
}
