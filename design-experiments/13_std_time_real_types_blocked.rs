use vstd::prelude::*;
use std::time::{Duration, SystemTime, SystemTimeError};
use std::convert::TryFrom;
verus! {

#[verifier::external_type_specification]
#[verifier::external_body]
pub struct ExSystemTime(SystemTime);
#[verifier::external_type_specification]
#[verifier::external_body]
pub struct ExSystemTimeError(SystemTimeError);

pub uninterp spec fn dur_ns(d: Duration) -> nat;
pub uninterp spec fn st_ns(t: SystemTime) -> int;   // nanos relative to epoch
pub uninterp spec fn ste_dur(e: SystemTimeError) -> Duration;

pub assume_specification [Duration::from_micros] (m: u64) -> (d: Duration)
    ensures dur_ns(d) == m as nat * 1000;
pub assume_specification [Duration::as_micros] (d: &Duration) -> (r: u128)
    ensures r as nat == dur_ns(*d) / 1000;
pub assume_specification [SystemTimeError::duration] (e: &SystemTimeError) -> (d: Duration)
    ensures d == ste_dur(*e);
pub assume_specification [SystemTime::duration_since] (t: &SystemTime, earlier: SystemTime) -> (r: Result<Duration, SystemTimeError>)
        ensures
            st_ns(*t) >= st_ns(earlier) ==> r is Ok && dur_ns(r->Ok_0) == st_ns(*t) - st_ns(earlier),
            st_ns(*t) < st_ns(earlier) ==> r is Err && dur_ns(ste_dur(r->Err_0)) == st_ns(earlier) - st_ns(*t);
#[verifier::external_body]
pub fn unix_epoch() -> (t: SystemTime) ensures st_ns(t) == 0 { SystemTime::UNIX_EPOCH }
pub assume_specification [u64::wrapping_neg] (x: u64) -> (r: u64)
    ensures x == 0 ==> r == 0, x != 0 ==> r as int == 0x1_0000_0000_0000_0000 - x as int;
pub assume_specification [i64::checked_neg] (x: i64) -> (r: Option<i64>)
    ensures x == i64::MIN ==> r is None, x != i64::MIN ==> r == Some((-x) as i64);

pub fn checked_system_time_to_micros_from_epoch(time: SystemTime) -> (r: Option<i64>)
{
        match time.duration_since(unix_epoch()) {
            Ok(duration_since_epoch) => {
                // Safely convert to i64 microseconds or return None.
                let micros: u128 = duration_since_epoch.as_micros();
                i64::try_from(micros).ok()
            }
            Err(e) => {
                // Safely convert to i64 microseconds (negative), or return None.
                let micros: u128 = e.duration().as_micros();
                i64::try_from(micros).ok().and_then(i64::checked_neg)
            }
        }
}

    pub fn micros_from_epoch_to_system_time(micros: i64) -> SystemTime {
        // Duration is always unsigned, so negative values need to be handled separately from
        // positive values
        if micros > 0 {
            let duration = Duration::from_micros(micros as u64);
            unix_epoch() + duration
        } else {
            let duration = Duration::from_micros((micros as u64).wrapping_neg());
            unix_epoch() - duration
        }
    }

} // verus!
fn main() {}
