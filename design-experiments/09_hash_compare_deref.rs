use vstd::prelude::*;
verus! {
pub uninterp spec fn sha256(b: Seq<u8>) -> Seq<u8>;
pub struct Output { pub bytes: Vec<u8> }
impl core::ops::Deref for Output {
    type Target = Vec<u8>;
    fn deref(&self) -> (r: &Vec<u8>) ensures *r == self.bytes { &self.bytes }
}
#[verifier::external_body]
pub fn digest(b: &Vec<u8>) -> (r: Output) ensures r.bytes@ == sha256(b@) { unimplemented!() }
pub enum E { Malformed, Mismatch }
pub uninterp spec fn hex_decode(s: Seq<char>) -> Option<Seq<u8>>;
#[verifier::external_body]
pub fn hex_decode_exec(s: &str) -> (r: Result<Vec<u8>, ()>)
    ensures hex_decode(s@) is Some ==> r is Ok && r->Ok_0@ == hex_decode(s@)->Some_0, hex_decode(s@) is None ==> r is Err
{ unimplemented!() }

fn check(body: &Vec<u8>, hex_hash: &str) -> (r: Result<(), E>)
    ensures r is Ok <==> hex_decode(hex_hash@) == Some(sha256(body@))
{
    let actual_hash =
        &hex_decode_exec(hex_hash).map_err(|_e| E::Malformed)?;

    let request_body_hash = digest(body);
    if *request_body_hash != *actual_hash {
        return Err(E::Mismatch);
    }
    assert(request_body_hash.bytes@ =~= actual_hash@);
    Ok(())
}
}
fn main(){}
