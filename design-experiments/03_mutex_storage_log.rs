use vstd::prelude::*;
use vstd::future::*;
use core::future::Future;
use core::pin::Pin;
use core::task::{Context, Poll};
verus! {

#[verifier::external_body]
#[verifier::reject_recursive_types(T)]
pub struct BoxFuture<'a, T> { _p: core::marker::PhantomData<&'a T> }
#[verifier::external]
impl<'a, T> Future for BoxFuture<'a, T> {
    type Output = T;
    fn poll(self: Pin<&mut Self>, _cx: &mut Context<'_>) -> Poll<T> { unimplemented!() }
}

pub enum Op { Set(u8), Commit }

pub trait Storage {
    spec fn log(&self) -> Seq<Op>;
    fn set<'a>(&'a mut self, v: u8) -> (f: BoxFuture<'a, Result<(), ()>>)
        ensures f.awaited() ==> final(self).log() == old(self).log().push(Op::Set(v));
    fn commit<'a>(&'a mut self) -> (f: BoxFuture<'a, Result<(), ()>>)
        ensures f.awaited() ==> final(self).log() == old(self).log().push(Op::Commit);
}

pub struct Mutex<T> { pub inner: T }
impl<T> Mutex<T> {
    #[verifier::external_body]
    pub fn lock<'a>(&'a mut self) -> (f: BoxFuture<'a, &'a mut T>)
        ensures f.awaited() ==> *f@ == old(self).inner && *final(f@) == final(self).inner
    { unimplemented!() }
}

pub struct SM<ST: Storage> { pub storage_ref: Mutex<ST>, pub n: u8 }
impl<ST: Storage> SM<ST> {
    async fn persist(&mut self)
        ensures final(self).storage_ref.inner.log() == old(self).storage_ref.inner.log().push(Op::Set(old(self).n)).push(Op::Commit),
            final(self).n == old(self).n
    {
        let mut storage = self.storage_ref.lock().await;
        if let Err(_e) = storage.set(self.n).await { }
        let _ = storage.commit().await;
    }
}
}
fn main(){}
