use vstd::prelude::*;
verus! {
pub struct SM { pub n: u32 }
impl SM {
    async fn helper(&mut self, x: u32) -> (r: u32)
        requires x < 100
        ensures r == x + 1, final(self).n == old(self).n
    { x + 1 }
    async fn go(&mut self) -> (r: u32)
        ensures r == 6
    {
        let y = self.helper(5).await;
        y
    }
    async fn bad(&mut self) -> (r: u32)
        ensures r == 7
    {
        let y = self.helper(5).await;
        y
    }
}
}
fn main(){}
