use vstd::prelude::*;
use vstd::future::*;
use core::future::Future;
use core::pin::Pin;
use core::task::{Context as TaskContext, Poll};
verus! {
#[verifier::external_body]
#[verifier::reject_recursive_types(T)]
pub struct BoxFuture<'a, T> { _p: core::marker::PhantomData<&'a T> }
#[verifier::external]
impl<'a, T> Future for BoxFuture<'a, T> {
    type Output = T;
    fn poll(self: Pin<&mut Self>, _cx: &mut TaskContext<'_>) -> Poll<T> { unimplemented!() }
}
pub enum Either2<A, B> { A(A), B(B) }
#[verifier::external_body]
pub fn select2<'a, F1: Future, F2: Future>(a: &'a mut F1, b: F2) -> (f: BoxFuture<'a, Either2<F1::Output, F2::Output>>)
    ensures f.awaited() ==> (match f@ {
        Either2::A(v) => final(a).awaited() && final(a)@ == v,
        Either2::B(v) => b.awaited() && b@ == v,
    })
{ unimplemented!() }

pub trait Timer {
    spec fn log(&self) -> Seq<u64>;
    fn wait_for(&mut self, d: u64) -> (f: BoxFuture<'static, ()>)
        ensures final(self).log() == old(self).log().push(d);
}
pub enum Req { Start(u8) }
#[verifier::external_body]
pub struct Receiver { _p: u8 }
impl Receiver {
    #[verifier::external_body]
    pub fn select_next_some<'a>(&'a mut self) -> (f: BoxFuture<'a, Req>) { unimplemented!() }
}
pub struct SM<T: Timer> { pub timer: T, pub n: u64 }
impl<T: Timer> SM<T> {
    #[verifier::exec_allows_no_decreases_clause]
    async fn run(&mut self, control: &mut Receiver)
    {
        loop
            invariant self.n == old(self).n
        {
            let mut w = self.timer.wait_for(5);
            let opt = match select2(&mut w, control.select_next_some()).await {
                Either2::A(()) => 0u8,
                Either2::B(Req::Start(o)) => o,
            };
            if opt == 7 { continue; }
        }
    }
}
}
fn main(){}
