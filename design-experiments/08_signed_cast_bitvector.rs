use vstd::prelude::*;
verus! {
pub assume_specification [u64::wrapping_neg] (x: u64) -> (r: u64)
    ensures r == (if x == 0 { 0u64 } else { (0x1_0000_0000_0000_0000 - x as int) as u64 });

fn neg_abs(micros: i64) -> (r: u64)
    requires micros <= 0
    ensures r as int == -(micros as int)
{
    let c = micros as u64;
    assert(c as int == (if micros >= 0 { micros as int } else { micros as int + 0x1_0000_0000_0000_0000 })) by (bit_vector)
        requires c == micros as u64;
    c.wrapping_neg()
}
}
fn main(){}
