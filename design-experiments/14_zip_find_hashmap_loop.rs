use vstd::prelude::*;
use std::collections::HashMap;
use std::convert::TryInto;
verus! {
pub struct App { pub id: String, pub v: u32 }
pub struct RApp { pub id: String, pub ok: bool }
pub enum AIR { Installed, Deferred, Failed(u8) }
#[derive(Clone)]
pub struct Event { pub t: u8, pub prev: Option<String>, pub ms: Option<u64> }
#[verifier::external_body]
pub struct RB { _p: u8 }
impl RB {
    pub uninterp spec fn view(&self) -> Seq<(String, Event)>;
    #[verifier::external_body]
    pub fn add_event(self, app: &App, e: Event) -> (r: RB) ensures r@ == self@.push((app.id, e)) { unimplemented!() }
}
#[verifier::external_body]
pub struct Duration { _p: u8 }
impl Duration {
    #[verifier::external_body]
    pub fn as_millis(&self) -> u128 { unimplemented!() }
}

fn f<'a>(apps: &'a Vec<App>, apps_with_update: &Vec<&RApp>, app_install_results: &Vec<AIR>, mut request_builder: RB,
     next_versions: &HashMap<String, Option<String>>, system_app_id: &str, install_duration: Option<Duration>) -> (r: (RB, Vec<&'a App>))
{
    let mut events = vec![];
    let mut installed_apps = vec![];
    for (response_app, app_install_result) in
        apps_with_update.iter().zip(app_install_results)
    {
        match apps.iter().find(|app| app.id == response_app.id) {
            Some(app) => {
                let event = match app_install_result {
                    AIR::Installed => {
                        installed_apps.push(app);
                        Event { t: 1, prev: None, ms: None }
                    }
                    AIR::Deferred => Event { t: 2, prev: None, ms: None },
                    AIR::Failed(_) => Event { t: 3, prev: None, ms: None },
                };
                let event = Event {
                    prev: Some(app.id.clone()),
                    ms: install_duration.as_ref().and_then(|d| d.as_millis().try_into().ok()),
                    ..event
                };
                request_builder = request_builder.add_event(app, event.clone());
                events.push(event);
            }
            None => {}
        }
    }
    if let Some(next_version) = next_versions.get(system_app_id) {
        let target_version = next_version.as_deref().unwrap_or_else(|| { "UNKNOWN" });
    }
    (request_builder, installed_apps)
}
}
fn main(){}
