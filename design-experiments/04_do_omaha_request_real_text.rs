use vstd::prelude::*;
use vstd::future::*;
use core::future::Future;
use core::pin::Pin;
use core::task::{Context as TaskContext, Poll};
verus! {

// ================= trusted prelude (stand-ins for dependencies) =================
#[verifier::external_body]
#[verifier::reject_recursive_types(T)]
pub struct BoxFuture<'a, T> { _p: core::marker::PhantomData<&'a T> }
#[verifier::external]
impl<'a, T> Future for BoxFuture<'a, T> {
    type Output = T;
    fn poll(self: Pin<&mut Self>, _cx: &mut TaskContext<'_>) -> Poll<T> { unimplemented!() }
}

#[verifier::external_body]
pub struct Duration { _p: u8 }
pub uninterp spec fn dur_ns(d: Duration) -> nat;
impl Duration {
    #[verifier::external_body]
    pub fn from_secs(s: u64) -> (d: Duration) ensures dur_ns(d) == s as nat * 1_000_000_000 { unimplemented!() }
}
impl vstd::std_specs::cmp::PartialEqSpecImpl for Duration {
    open spec fn obeys_eq_spec() -> bool { true }
    open spec fn eq_spec(&self, other: &Duration) -> bool { dur_ns(*self) == dur_ns(*other) }
}
impl PartialEq for Duration {
    #[verifier::external_body]
    fn eq(&self, other: &Duration) -> (b: bool) ensures b == (dur_ns(*self) == dur_ns(*other)) { unimplemented!() }
}
pub broadcast proof fn dur_ext(a: Duration, b: Duration)
    ensures #[trigger] dur_ns(a) == #[trigger] dur_ns(b) ==> a == b { admit(); }

pub assume_specification<T, E, U, F: FnOnce(T) -> Result<U, E>> [Result::<T,E>::and_then] (r: Result<T,E>, f: F) -> (out: Result<U,E>)
  requires r is Ok ==> f.requires((r->Ok_0,))
  ensures r is Ok ==> f.ensures((r->Ok_0,), out), r is Err ==> out is Err && out->Err_0 == r->Err_0;

pub fn min(a: u64, b: u64) -> (r: u64) ensures r == if a <= b { a } else { b } { if a <= b { a } else { b } }

#[verifier::external_body] pub struct HeaderValue { _p: u8 }
#[verifier::external_body] pub struct ToStrError { _p: u8 }
#[verifier::external_body] pub struct HeaderMap { _p: u8 }
#[verifier::external_body] pub struct AnyhowError { _p: u8 }
#[verifier::external_body] pub struct ParseIntError { _p: u8 }
pub uninterp spec fn hv_str(h: &HeaderValue) -> Option<Seq<char>>;   // Some(s) iff visible ascii
pub uninterp spec fn hm_get(m: &HeaderMap, name: Seq<char>) -> Option<&HeaderValue>;
pub uninterp spec fn dec_u64(s: Seq<char>) -> Option<u64>; // Some(n) iff s is a decimal u64
impl HeaderValue {
    #[verifier::external_body]
    pub fn to_str(&self) -> (r: Result<&str, ToStrError>)
        ensures hv_str(self) is Some ==> r is Ok && r->Ok_0@ == hv_str(self)->Some_0,
                hv_str(self) is None ==> r is Err
    { unimplemented!() }
}
impl HeaderMap {
    #[verifier::external_body]
    pub fn get(&self, name: &str) -> (r: Option<&HeaderValue>)
        ensures r == hm_get(self, name@)
    { unimplemented!() }
}
#[verifier::external_body]
pub fn parse_u64(s: &str) -> (r: Result<u64, ParseIntError>)
    ensures dec_u64(s@) is Some ==> r is Ok && r->Ok_0 == dec_u64(s@)->Some_0,
            dec_u64(s@) is None ==> r is Err
{ unimplemented!() }
#[verifier::external_body]
pub fn anyhow_from<E>(e: E) -> AnyhowError { unimplemented!() }

#[verifier::external_body] pub struct StatusCode { _p: u8 }
pub uninterp spec fn status_code(s: StatusCode) -> int;
impl StatusCode {
    #[verifier::external_body]
    pub fn is_success(&self) -> (b: bool) ensures b == (200 <= status_code(*self) < 300) { unimplemented!() }
}
pub struct Parts { pub status: StatusCode, pub headers: HeaderMap }
pub struct HttpResponse<T> { pub head: Parts, pub body: T }
impl<T> HttpResponse<T> {
    pub fn into_parts(self) -> (r: (Parts, T)) ensures r.0 == self.head, r.1 == self.body { (self.head, self.body) }
}
#[verifier::external_body] pub struct HttpRequestMsg { _p: u8 }
#[verifier::external_body] pub struct HttpError { _p: u8 }
#[verifier::external_body] pub struct DerSignature { _p: u8 }
#[verifier::external_body] pub struct CupVerificationError { _p: u8 }
#[verifier::external_body] pub struct BuildError { _p: u8 }
pub struct RequestMetadata { pub public_key_id: u64 }

pub enum OmahaRequestError {
    Build(BuildError),
    CupValidation(CupVerificationError),
    HttpTransport(HttpError),
    HttpStatus(StatusCode),
}
impl vstd::std_specs::convert::FromSpecImpl<BuildError> for OmahaRequestError {
    open spec fn obeys_from_spec() -> bool { true }
    open spec fn from_spec(e: BuildError) -> Self { OmahaRequestError::Build(e) }
}
impl From<BuildError> for OmahaRequestError { fn from(e: BuildError) -> Self { OmahaRequestError::Build(e) } }
impl vstd::std_specs::convert::FromSpecImpl<CupVerificationError> for OmahaRequestError {
    open spec fn obeys_from_spec() -> bool { true }
    open spec fn from_spec(e: CupVerificationError) -> Self { OmahaRequestError::CupValidation(e) }
}
impl From<CupVerificationError> for OmahaRequestError { fn from(e: CupVerificationError) -> Self { OmahaRequestError::CupValidation(e) } }
impl vstd::std_specs::convert::FromSpecImpl<HttpError> for OmahaRequestError {
    open spec fn obeys_from_spec() -> bool { true }
    open spec fn from_spec(e: HttpError) -> Self { OmahaRequestError::HttpTransport(e) }
}
impl From<HttpError> for OmahaRequestError { fn from(e: HttpError) -> Self { OmahaRequestError::HttpTransport(e) } }

pub trait HttpRequest {
    spec fn log(&self) -> Seq<(HttpRequestMsg, Result<HttpResponse<Vec<u8>>, HttpError>)>;
    fn request<'a>(&'a mut self, req: HttpRequestMsg) -> (f: BoxFuture<'a, Result<HttpResponse<Vec<u8>>, HttpError>>)
        ensures f.awaited() ==> final(self).log() == old(self).log().push((req, f@));
}
pub trait Cupv2Handler {
    spec fn accepts(&self, md: &RequestMetadata, resp: &HttpResponse<Vec<u8>>, id: u64) -> bool;
    fn verify_response(&self, md: &RequestMetadata, resp: &HttpResponse<Vec<u8>>, id: u64) -> (r: Result<DerSignature, CupVerificationError>)
        ensures r is Ok <==> self.accepts(md, resp, id);
}
pub enum StorageOp { SetInt(Seq<char>, i64), Remove(Seq<char>), Commit }
pub trait Storage {
    spec fn log(&self) -> Seq<StorageOp>;
    fn commit_or_log<'a>(&'a mut self) -> (f: BoxFuture<'a, ()>)
        ensures f.awaited() ==> final(self).log() == old(self).log().push(StorageOp::Commit);
}
pub struct Mutex<T> { pub inner: T }
pub struct Rc<T> { pub inner: T }
impl<T> Rc<Mutex<T>> {
    #[verifier::external_body]
    pub fn lock<'a>(&'a mut self) -> (f: BoxFuture<'a, &'a mut T>)
        ensures f.awaited() ==> *f@ == old(self).inner.inner && *final(f@) == final(self).inner.inner
    { unimplemented!() }
}

pub struct ProtocolState { pub server_dictated_poll_interval: Option<Duration>, pub consecutive_failed_update_checks: u32 }
impl Clone for ProtocolState {
    #[verifier::external_body]
    fn clone(&self) -> (r: Self) ensures r == *self { unimplemented!() }
}
pub enum StateMachineEvent { ProtocolStateChange(ProtocolState), Other }
#[verifier::external_body]
pub struct Yield { _p: u8 }
impl Yield {
    pub uninterp spec fn view(&self) -> Seq<StateMachineEvent>;
    #[verifier::external_body]
    pub fn yield_<'a>(&'a mut self, item: StateMachineEvent) -> (f: BoxFuture<'a, ()>)
        ensures f.awaited() ==> final(self)@ == old(self)@.push(item)
    { unimplemented!() }
}
pub struct UcContext { pub state: ProtocolState }
impl UcContext {
    #[verifier::external_body]
    pub fn persist<'a, S: Storage>(&'a self, storage: &'a mut S) -> (f: BoxFuture<'a, ()>)
        ensures f.awaited() ==> final(storage).log() == old(storage).log().push(StorageOp::Remove(seq!['x']))
    { unimplemented!() }
}
#[verifier::external_body] pub struct RequestBuilder { _p: u8 }
impl RequestBuilder {
    #[verifier::external_body]
    pub fn build<CH: Cupv2Handler>(&self, h: Option<&CH>) -> (r: Result<(HttpRequestMsg, Option<RequestMetadata>), BuildError>)
        ensures r is Ok && h is Some ==> (r->Ok_0).1 is Some
    { unimplemented!() }
}
pub const X_RETRY_AFTER: &'static str = "X-Retry-After";

// ================= code under verification (real text + rewrites) =================
pub struct StateMachine<HR, ST, CH>
where HR: HttpRequest, ST: Storage
{
    pub http: HR,
    pub storage_ref: Rc<Mutex<ST>>,
    pub context: UcContext,
    pub cup_handler: Option<CH>,
}

pub open spec fn retry_after_spec(h: &HeaderMap) -> Option<u64> {
    match hm_get(h, X_RETRY_AFTER@) {
        Some(v) => match hv_str(v) {
            Some(s) => match dec_u64(s) { Some(n) => Some(if n <= 86400 { n } else { 86400 }), None => None },
            None => None,
        },
        None => None,
    }
}

impl<HR, ST, CH> StateMachine<HR, ST, CH>
where HR: HttpRequest, ST: Storage, CH: Cupv2Handler
{
    async fn do_omaha_request_and_update_context<'a>(
        &'a mut self,
        builder: &RequestBuilder,
        co: &mut Yield,
    ) -> (res: Result<
        (
            Parts,
            Vec<u8>,
            Option<RequestMetadata>,
            Option<DerSignature>,
        ),
        OmahaRequestError,
    >)
        ensures
            // C02: a response that fails authentication changes nothing
            (res matches Err(OmahaRequestError::CupValidation(_))) ==> final(co)@ == old(co)@ && final(self).context == old(self).context
                && final(self).storage_ref == old(self).storage_ref,
            // C02 strong: exactly one exchange unless the request could not be built; a response the handler
            // does not accept yields CupValidation
            (res matches Err(OmahaRequestError::Build(_))) || final(self).http.log().len() == old(self).http.log().len() + 1,
            ({ let l = final(self).http.log();
               (l.len() == old(self).http.log().len() + 1 && l.last().1 is Ok && old(self).cup_handler is Some && !(res matches Err(OmahaRequestError::CupValidation(_)))) ==>
                  (exists|md: RequestMetadata| #[trigger] old(self).cup_handler->Some_0.accepts(&md, &(l.last().1->Ok_0), md.public_key_id)) }),
            // C07
            res is Ok ==> (match retry_after_spec(&(res->Ok_0).0.headers) {
                    Some(n) => final(self).context.state.server_dictated_poll_interval is Some
                        && dur_ns(final(self).context.state.server_dictated_poll_interval->Some_0) == n as nat * 1_000_000_000,
                    None => final(self).context.state.server_dictated_poll_interval is None,
                }),
    {
        let (request, request_metadata) = match builder.build(self.cup_handler.as_ref()) { Ok(v) => v, Err(e) => return Err(From::from(e)) };
        let response = match Self::make_request(&mut self.http, request).await { Ok(v) => v, Err(e) => return Err(From::from(e)) };

        let signature: Option<DerSignature> = if let (Some(handler), Some(metadata)) =
            (self.cup_handler.as_ref(), &request_metadata)
        {
            let signature = handler
                .verify_response(metadata, &response, metadata.public_key_id)
                .map_err(|e: CupVerificationError| -> (o: CupVerificationError) ensures o == e {
                    e
                });
            let signature = match signature { Ok(v) => v, Err(e) => return Err(From::from(e)) };
            Some(signature)
        } else {
            None
        };

        let (parts, body) = response.into_parts();

        // Clients MUST respect this header even if paired with non-successful HTTP response code.
        let server_dictated_poll_interval = parts.headers.get(X_RETRY_AFTER).and_then(|header: &HeaderValue| -> (r: Option<Duration>)
            ensures r is Some <==> (hv_str(header) is Some && dec_u64(hv_str(header)->Some_0) is Some),
                    r is Some ==> dur_ns(r->Some_0) == (if dec_u64(hv_str(header)->Some_0)->Some_0 <= 86400 { dec_u64(hv_str(header)->Some_0)->Some_0 } else { 86400u64 }) as nat * 1_000_000_000
        {
            match header
                .to_str()
                .map_err(|e| anyhow_from(e))
                .and_then(|s: &str| -> (r: Result<u64, AnyhowError>)
                    ensures dec_u64(s@) is Some ==> r is Ok && r->Ok_0 == dec_u64(s@)->Some_0, dec_u64(s@) is None ==> r is Err
                  { parse_u64(s).map_err(|e| anyhow_from(e)) })
            {
                Ok(seconds) => {
                    // Servers SHOULD NOT send a value in excess of 86400 (24 hours), and clients
                    // SHOULD treat values greater than 86400 as 86400.
                    Some(Duration::from_secs(min(seconds, 86400)))
                }
                Err(e) => {
                    None
                }
            }
        });
        assert(match retry_after_spec(&parts.headers) {
                    Some(n) => server_dictated_poll_interval is Some
                        && dur_ns(server_dictated_poll_interval->Some_0) == n as nat * 1_000_000_000,
                    None => server_dictated_poll_interval is None,
                });
        if self.context.state.server_dictated_poll_interval != server_dictated_poll_interval {
            self.context.state.server_dictated_poll_interval = server_dictated_poll_interval;
            co.yield_(StateMachineEvent::ProtocolStateChange(
                self.context.state.clone(),
            ))
            .await;
            let mut storage = self.storage_ref.lock().await;
            self.context.persist(&mut *storage).await;
            storage.commit_or_log().await;
        }
        if !parts.status.is_success() {
            // Convert HTTP failure responses into Errors.
            Err(OmahaRequestError::HttpStatus(parts.status))
        } else {
            // Pass successful responses to the caller.
            Ok((parts, body, request_metadata, signature))
        }
    }

    async fn make_request(
        http_client: &mut HR,
        request: HttpRequestMsg,
    ) -> (r: Result<HttpResponse<Vec<u8>>, HttpError>)
        ensures final(http_client).log() == old(http_client).log().push((request, r))
    {
        http_client.request(request).await.map_err(|err: HttpError| -> (o: HttpError) ensures o == err {
            err
        })
    }
}
}
fn main(){}
