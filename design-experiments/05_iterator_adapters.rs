use vstd::prelude::*;
verus! {
pub struct A { pub id: u32, pub ok: bool }
fn t_map(v: &Vec<A>) -> (r: Vec<u32>)
    ensures r@.len() == v@.len(), forall|i: int| 0 <= i < v@.len() ==> r@[i] == v@[i].id
{
    v.iter().map(|a: &A| -> (o: u32) ensures o == a.id { a.id }).collect()
}
fn t_all(v: &Vec<A>) -> (r: bool)
    ensures r == forall|i: int| 0 <= i < v@.len() ==> v@[i].ok
{
    v.iter().all(|a: &A| -> (o: bool) ensures o == a.ok { a.ok })
}
fn t_filter(v: &Vec<A>) -> (r: Vec<&A>)
    ensures r@.len() <= v@.len(), forall|i: int| 0 <= i < r@.len() ==> r@[i].ok
{
    v.iter().filter(|a: &&A| -> (o: bool) ensures o == a.ok { a.ok }).collect()
}
}
fn main(){}
