use vstd::prelude::*;
use vstd::future::*;
use core::future::Future;
use core::pin::Pin;
use core::task::{Context, Poll};
verus! {

#[verifier::external_body]
#[verifier::reject_recursive_types(T)]
pub struct BoxFuture<'a, T> { _p: core::marker::PhantomData<&'a T> }
#[verifier::external]
impl<'a, T> Future for BoxFuture<'a, T> {
    type Output = T;
    fn poll(self: Pin<&mut Self>, _cx: &mut Context<'_>) -> Poll<T> { unimplemented!() }
}

pub enum Ev { A, B(u8) }

#[verifier::external_body]
pub struct Yield { _p: u8 }
impl Yield {
    pub uninterp spec fn view(&self) -> Seq<Ev>;
    #[verifier::external_body]
    pub fn yield_<'a>(&'a mut self, item: Ev) -> (f: BoxFuture<'a, ()>)
        ensures f.awaited() ==> final(self)@ == old(self)@.push(item)
    { unimplemented!() }
}

pub struct SM { pub n: u32 }
impl SM {
    async fn go(&mut self, co: &mut Yield, x: u8) -> (r: u8)
        ensures final(co)@ == old(co)@.push(Ev::A).push(Ev::B(x)), final(self).n == old(self).n
    {
        co.yield_(Ev::A).await;
        co.yield_(Ev::B(x)).await;
        x
    }
    async fn go2(&mut self, co: &mut Yield, x: u8)
        ensures final(co)@ == old(co)@.push(Ev::A).push(Ev::B(x)).push(Ev::A).push(Ev::B(x)),
    {
        self.go(co, x).await;
        self.go(co, x).await;
    }
}
}
fn main(){}
