use vstd::prelude::*;
verus! {
pub struct VxSplit<'a> { pub parts: Vec<&'a str>, pub pos: usize }
impl<'a> Iterator for VxSplit<'a> {
    type Item = &'a str;
    #[verifier::external_body]
    fn next(&mut self) -> Option<&'a str> { unimplemented!() }
}
impl<'a> vstd::std_specs::iter::IteratorSpecImpl for VxSplit<'a> {
}
}
fn main(){}
