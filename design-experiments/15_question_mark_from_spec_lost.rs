use vstd::prelude::*;
verus! {
pub enum E1 { A, B(u8) }
pub enum E2 { X(E1), Y }
impl vstd::std_specs::convert::FromSpecImpl<E1> for E2 {
    open spec fn obeys_from_spec() -> bool { true }
    open spec fn from_spec(e: E1) -> Self { E2::X(e) }
}
impl From<E1> for E2 { fn from(e: E1) -> E2 { E2::X(e) } }
fn inner(x: u8) -> (r: Result<u8, E1>)
    ensures x < 10 ==> r == Ok::<u8,E1>(x), x >= 10 ==> r is Err
{ if x < 10 { Ok(x) } else { Err(E1::B(x)) } }
fn outer(x: u8) -> (r: Result<u8, E2>)
    ensures x>=10 ==> r matches Err(E2::X(_))
{
    let v = inner(x)?;
    Ok(v)
}
fn outer2(x: u8) -> (r: Result<u8, E2>)
    ensures x>=10 ==> r matches Err(E2::X(_))
{
    match inner(x) { Ok(v) => Ok(v), Err(e) => Err(e.into()) }
}
}
fn main(){}
