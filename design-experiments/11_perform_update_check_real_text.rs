use vstd::prelude::*;
use vstd::future::*;
use core::future::Future;
use core::pin::Pin;
use core::task::{Context as TaskContext, Poll};
use std::collections::HashMap;
use std::convert::TryInto;
verus! {

// ---------------- trusted prelude (minimal, for acceptance experiment) ----------------
#[verifier::external_body]
#[verifier::reject_recursive_types(T)]
pub struct BoxFuture<'a, T> { _p: core::marker::PhantomData<&'a T> }
#[verifier::external]
impl<'a, T> Future for BoxFuture<'a, T> { type Output = T; fn poll(self: Pin<&mut Self>, _cx: &mut TaskContext<'_>) -> Poll<T> { unimplemented!() } }

pub assume_specification<T> [Option::<T>::as_deref] (o: &Option<T>) -> (r: Option<&<T as core::ops::Deref>::Target>) where T: core::ops::Deref
    ensures o is Some <==> r is Some;

pub assume_specification<T: Clone> [<[T]>::to_vec] (s: &[T]) -> (r: Vec<T>);

#[verifier::external_body] pub struct Duration { _p: u8 }
#[verifier::external_body] pub struct SystemTime { _p: u8 }
#[verifier::external_body] pub struct SystemTimeError { _p: u8 }
#[verifier::external_body] pub struct Instant { _p: u8 }
impl Clone for Duration { #[verifier::external_body] fn clone(&self) -> (r: Self) ensures r == *self { unimplemented!() } }
impl Copy for Duration {}
impl Clone for SystemTime { #[verifier::external_body] fn clone(&self) -> (r: Self) ensures r == *self { unimplemented!() } }
impl Copy for SystemTime {}
impl Clone for Instant { #[verifier::external_body] fn clone(&self) -> (r: Self) ensures r == *self { unimplemented!() } }
impl Copy for Instant {}
impl Duration {
    #[verifier::external_body] pub fn from_millis(ms: u64) -> Duration { unimplemented!() }
    #[verifier::external_body] pub fn as_millis(&self) -> u128 { unimplemented!() }
}
impl SystemTime {
    #[verifier::external_body] pub fn duration_since(&self, earlier: SystemTime) -> Result<Duration, SystemTimeError> { unimplemented!() }
}
impl Instant {
    #[verifier::external_body] pub fn checked_duration_since(&self, earlier: Instant) -> Option<Duration> { unimplemented!() }
}
pub trait TimeSource {
    fn now_in_walltime(&self) -> SystemTime;
    fn now_in_monotonic(&self) -> Instant;
}
pub trait Timer {
    spec fn log(&self) -> Seq<Duration>;
    fn wait_for(&mut self, d: Duration) -> (f: BoxFuture<'static, ()>)
        ensures final(self).log() == old(self).log().push(d);
}

#[derive(Clone, Copy, PartialEq, Eq)]
pub enum InstallSource { OnDemand, ScheduledTask }
pub struct RequestParams { pub source: InstallSource, pub use_configured_proxies: bool, pub disable_updates: bool, pub offer_update_if_same_version: bool }
#[verifier::external_body] pub struct Version { _p: u8 }
impl Version { #[verifier::external_body] pub fn to_string(&self) -> String { unimplemented!() } }
pub struct App { pub id: String, pub version: Version }
#[verifier::external_body] pub struct Config { _p: u8 }
impl Clone for Config { #[verifier::external_body] fn clone(&self) -> (r: Self) ensures r == *self { unimplemented!() } }
#[verifier::external_body] pub struct GUID { _p: u8 }
impl GUID { #[verifier::external_body] pub fn new() -> GUID { unimplemented!() } }
impl Clone for GUID { #[verifier::external_body] fn clone(&self) -> (r: Self) ensures r == *self { unimplemented!() } }

#[derive(PartialEq, Eq)]
pub enum EventType { Unknown, UpdateComplete, UpdateDownloadStarted, UpdateDownloadFinished }
#[derive(PartialEq, Eq)]
pub enum EventResult { Error, Success, UpdateDeferred }
#[derive(PartialEq, Eq)]
pub enum EventErrorCode { ParseResponse, ConstructInstallPlan, Installation, DeniedByPolicy }
pub struct Event {
    pub event_type: EventType, pub event_result: EventResult, pub errorcode: Option<EventErrorCode>,
    pub previous_version: Option<String>, pub next_version: Option<String>, pub download_time_ms: Option<u64>,
}
impl Clone for Event { #[verifier::external_body] fn clone(&self) -> (r: Self) ensures r == *self { unimplemented!() } }
impl Event {
    pub fn default() -> (r: Event) { Event { event_type: EventType::Unknown, event_result: EventResult::Error, errorcode: None, previous_version: None, next_version: None, download_time_ms: None } }
    pub fn success(event_type: EventType) -> Self { Self { event_type, event_result: EventResult::Success, ..Self::default() } }
    pub fn error(errorcode: EventErrorCode) -> Self { Self { event_type: EventType::UpdateComplete, event_result: EventResult::Error, errorcode: Some(errorcode), ..Self::default() } }
}

#[verifier::external_body] pub struct RequestBuilder<'a> { _p: core::marker::PhantomData<&'a u8> }
impl<'a> RequestBuilder<'a> {
    #[verifier::external_body] pub fn new(config: &'a Config, params: &RequestParams) -> Self { unimplemented!() }
    #[verifier::external_body] pub fn add_update_check(self, app: &App) -> Self { unimplemented!() }
    #[verifier::external_body] pub fn add_ping(self, app: &App) -> Self { unimplemented!() }
    #[verifier::external_body] pub fn add_event(self, app: &App, event: Event) -> Self { unimplemented!() }
    #[verifier::external_body] pub fn request_id(self, id: GUID) -> Self { unimplemented!() }
    #[verifier::external_body] pub fn session_id(self, id: GUID) -> Self { unimplemented!() }
}

#[verifier::external_body] pub struct Parts { _p: u8 }
#[verifier::external_body] pub struct DerSignature { _p: u8 }
impl DerSignature { #[verifier::external_body] pub fn as_bytes(&self) -> &[u8] { unimplemented!() } }
pub struct RequestMetadata { pub public_key_id: u64 }
#[verifier::external_body] pub struct JsonError { _p: u8 }
#[verifier::external_body] pub struct HttpBuildError { _p: u8 }
#[verifier::external_body] pub struct CupDecorationError { _p: u8 }
#[verifier::external_body] pub struct CupVerificationError { _p: u8 }
#[verifier::external_body] pub struct HttpError { _p: u8 }
impl HttpError { #[verifier::external_body] pub fn is_user(&self) -> bool { unimplemented!() } }
#[verifier::external_body] pub struct StatusCode { _p: u8 }
#[verifier::external_body] pub struct AnyhowError { _p: u8 }

pub enum OmahaRequestError {
    Json(JsonError), HttpBuilder(HttpBuildError), CupDecoration(CupDecorationError),
    CupValidation(CupVerificationError), HttpTransport(HttpError), HttpStatus(StatusCode),
}
pub enum ResponseParseError { Json(JsonError) }
pub enum UpdateCheckError { OmahaRequest(OmahaRequestError), ResponseParser(ResponseParseError), InstallPlan(AnyhowError) }
impl vstd::std_specs::convert::FromSpecImpl<JsonError> for OmahaRequestError {
    open spec fn obeys_from_spec() -> bool { true }
    open spec fn from_spec(e: JsonError) -> Self { OmahaRequestError::Json(e) }
}
impl From<JsonError> for OmahaRequestError { fn from(e: JsonError) -> Self { OmahaRequestError::Json(e) } }
impl vstd::std_specs::convert::FromSpecImpl<HttpBuildError> for OmahaRequestError {
    open spec fn obeys_from_spec() -> bool { true }
    open spec fn from_spec(e: HttpBuildError) -> Self { OmahaRequestError::HttpBuilder(e) }
}
impl From<HttpBuildError> for OmahaRequestError { fn from(e: HttpBuildError) -> Self { OmahaRequestError::HttpBuilder(e) } }
impl vstd::std_specs::convert::FromSpecImpl<CupDecorationError> for OmahaRequestError {
    open spec fn obeys_from_spec() -> bool { true }
    open spec fn from_spec(e: CupDecorationError) -> Self { OmahaRequestError::CupDecoration(e) }
}
impl From<CupDecorationError> for OmahaRequestError { fn from(e: CupDecorationError) -> Self { OmahaRequestError::CupDecoration(e) } }
impl vstd::std_specs::convert::FromSpecImpl<CupVerificationError> for OmahaRequestError {
    open spec fn obeys_from_spec() -> bool { true }
    open spec fn from_spec(e: CupVerificationError) -> Self { OmahaRequestError::CupValidation(e) }
}
impl From<CupVerificationError> for OmahaRequestError { fn from(e: CupVerificationError) -> Self { OmahaRequestError::CupValidation(e) } }
impl vstd::std_specs::convert::FromSpecImpl<HttpError> for OmahaRequestError {
    open spec fn obeys_from_spec() -> bool { true }
    open spec fn from_spec(e: HttpError) -> Self { OmahaRequestError::HttpTransport(e) }
}
impl From<HttpError> for OmahaRequestError { fn from(e: HttpError) -> Self { OmahaRequestError::HttpTransport(e) } }
impl vstd::std_specs::convert::FromSpecImpl<StatusCode> for OmahaRequestError {
    open spec fn obeys_from_spec() -> bool { true }
    open spec fn from_spec(e: StatusCode) -> Self { OmahaRequestError::HttpStatus(e) }
}
impl From<StatusCode> for OmahaRequestError { fn from(e: StatusCode) -> Self { OmahaRequestError::HttpStatus(e) } }
impl vstd::std_specs::convert::FromSpecImpl<OmahaRequestError> for UpdateCheckError {
    open spec fn obeys_from_spec() -> bool { true }
    open spec fn from_spec(e: OmahaRequestError) -> Self { UpdateCheckError::OmahaRequest(e) }
}
impl From<OmahaRequestError> for UpdateCheckError { fn from(e: OmahaRequestError) -> Self { UpdateCheckError::OmahaRequest(e) } }
impl vstd::std_specs::convert::FromSpecImpl<ResponseParseError> for UpdateCheckError {
    open spec fn obeys_from_spec() -> bool { true }
    open spec fn from_spec(e: ResponseParseError) -> Self { UpdateCheckError::ResponseParser(e) }
}
impl From<ResponseParseError> for UpdateCheckError { fn from(e: ResponseParseError) -> Self { UpdateCheckError::ResponseParser(e) } }
// ---- protocol::response (would be extracted real structs, serde attrs stripped) ----
#[derive(PartialEq, Eq)]
pub enum OmahaStatus { Ok, Restricted, NoUpdate, Error(String) }
pub struct Manifest { pub version: String }
pub struct UpdateCheck { pub status: OmahaStatus, pub info: Option<String>, pub manifest: Option<Manifest> }
pub struct Cohort { pub id: Option<String>, pub hint: Option<String>, pub name: Option<String> }
pub struct RespApp { pub id: String, pub status: OmahaStatus, pub cohort: Cohort, pub update_check: Option<UpdateCheck> }
impl RespApp {
    #[verifier::external_body]
    pub fn get_manifest_version(&self) -> Option<String> { unimplemented!() }
}
pub struct DayStart { pub elapsed_days: Option<u32>, pub elapsed_seconds: Option<u32> }
pub struct Response { pub protocol_version: String, pub server: Option<String>, pub daystart: Option<DayStart>, pub apps: Vec<RespApp> }
impl Clone for Response { #[verifier::external_body] fn clone(&self) -> (r: Self) ensures r == *self { unimplemented!() } }

pub enum UserCounting { ClientRegulatedByDate(Option<u32>) }
pub mod update_check {
    use super::*;
    verus!{
    pub enum Action { NoUpdate, DeferredByPolicy, DeniedByPolicy, InstallPlanExecutionError, Updated }
    pub struct AppResponse { pub app_id: String, pub cohort: Cohort, pub user_counting: UserCounting, pub result: Action }
    pub struct Response { pub app_responses: Vec<AppResponse> }
    }
}

pub trait Plan { fn id(&self) -> String; }
pub enum AppInstallResult<E> { Installed, Deferred, Failed(E) }
pub enum UpdateDecision { Ok, DeferredByPolicy, DeniedByPolicy }
pub trait Installer {
    type InstallPlan: Plan;
    type InstallResult;
    type Error;
    fn try_create_install_plan<'a>(&'a self, request_params: &'a RequestParams, request_metadata: Option<&'a RequestMetadata>,
        response: &'a Response, response_bytes: Vec<u8>, ecdsa_signature: Option<Vec<u8>>) -> BoxFuture<'a, Result<Self::InstallPlan, Self::Error>>;
}
pub trait PolicyEngine {
    type TimeSource: TimeSource;
    type InstallResult;
    type InstallPlan: Plan;
    fn update_can_start<'a>(&'a mut self, proposed_install_plan: &'a Self::InstallPlan) -> BoxFuture<'a, UpdateDecision>;
    fn reboot_needed<'a>(&'a mut self, install_plan: &'a Self::InstallPlan) -> BoxFuture<'a, bool>;
}
pub trait Storage {
    fn set_time<'a>(&'a mut self, key: &'a str, value: SystemTime) -> BoxFuture<'a, Result<(), ()>>;
    fn set_string<'a>(&'a mut self, key: &'a str, value: &'a str) -> BoxFuture<'a, Result<(), ()>>;
    fn commit_or_log<'a>(&'a mut self) -> BoxFuture<'a, ()>;
}
pub trait AppSet { fn get_system_app_id(&self) -> &str; }
pub enum Metrics {
    UpdateCheckResponseTime { response_time: Duration, successful: bool },
    RequestsPerCheck { count: u64, successful: bool },
    SuccessfulUpdateDuration(Duration), FailedUpdateDuration(Duration), SuccessfulUpdateFromFirstSeen(Duration),
    OmahaEventLost(Event),
}
pub struct Mutex<T> { pub inner: T }
pub struct Rc<T> { pub inner: T }
impl<T> Rc<Mutex<T>> {
    #[verifier::external_body]
    pub fn lock<'a>(&'a mut self) -> (f: BoxFuture<'a, &'a mut T>)
        ensures f.awaited() ==> *f@ == old(self).inner.inner && *final(f@) == final(self).inner.inner
    { unimplemented!() }
}
#[derive(Clone, Copy, PartialEq, Eq)]
pub enum State { Idle, CheckingForUpdates(InstallSource), ErrorCheckingForUpdate, NoUpdateAvailable, InstallationDeferredByPolicy, InstallingUpdate, WaitingForReboot, InstallationError }
#[verifier::external_body] pub struct BoxDynError { _p: u8 }
pub enum StateMachineEvent { StateChange(State), OmahaServerResponse(Response), InstallerError(Option<BoxDynError>), Other }
pub mod async_generator {
    use super::*;
    verus!{
    #[verifier::external_body]
    #[verifier::reject_recursive_types(I)]
    pub struct Yield<I> { _p: core::marker::PhantomData<I> }
    impl<I> Yield<I> {
        pub uninterp spec fn view(&self) -> Seq<I>;
        #[verifier::external_body]
        pub fn yield_<'a>(&'a mut self, item: I) -> (f: BoxFuture<'a, ()>)
            ensures f.awaited() ==> final(self)@ == old(self)@.push(item)
        { unimplemented!() }
    }
    }
}
pub enum RebootAfterUpdate<T> { Needed(T), NotNeeded }
#[verifier::external_body] pub fn vx_random_u64() -> u64 { unimplemented!() }
pub const UPDATE_FINISH_TIME: &'static str = "update_finish_time";
pub const TARGET_VERSION: &'static str = "target_version";
pub const MAX_OMAHA_REQUEST_ATTEMPTS: u64 = 3;

pub struct ProtocolState { pub server_dictated_poll_interval: Option<Duration>, pub consecutive_failed_update_checks: u32 }
pub struct UcContext { pub state: ProtocolState }
pub struct StateMachine<PE, IN, TM, ST, AS>
where PE: PolicyEngine, IN: Installer, TM: Timer, ST: Storage, AS: AppSet
{
    pub config: Config,
    pub context: UcContext,
    pub policy_engine: PE,
    pub installer: IN,
    pub timer: TM,
    pub time_source: PE::TimeSource,
    pub storage_ref: Rc<Mutex<ST>>,
    pub app_set: Rc<Mutex<AS>>,
}
#[verifier::external_body]
pub fn vx_frag_app_responses<E>(response: Response, app_install_results: Vec<AppInstallResult<E>>, errors: &mut Vec<E>) -> Vec<update_check::AppResponse> { unimplemented!() }
#[verifier::external_body]
pub fn vx_box_dyn_error<E>(e: E) -> BoxDynError { unimplemented!() }
#[verifier::external_body]
pub fn vx_anyhow_from<E>(e: E) -> AnyhowError { unimplemented!() }

/// Return a random number in [n - range / 2, n - range / 2 + range).
fn randomize(n: u64, range: u64) -> (r: u64)
    requires range > 0, n >= range / 2, n - range / 2 + range <= u64::MAX
{
    n - range / 2 + vx_random_u64() % range
}

impl<PE, IN, TM, ST, AS, IR, PL> StateMachine<PE, IN, TM, ST, AS>
where
    PE: PolicyEngine<InstallResult = IR, InstallPlan = PL>,
    IN: Installer<InstallResult = IR, InstallPlan = PL>,
    TM: Timer,
    ST: Storage,
    AS: AppSet,
    IR: 'static + Send,
    PL: Plan,
{
    #[verifier::external_body]
    async fn vx_frag_install(&mut self, install_plan: &PL, co: &mut async_generator::Yield<StateMachineEvent>)
        -> (r: (IN::InstallResult, Vec<AppInstallResult<IN::Error>>))
        ensures final(co)@.len() >= old(co)@.len(), forall|i: int| 0 <= i < old(co)@.len() ==> final(co)@[i] == old(co)@[i]
    { unimplemented!() }

    #[verifier::external_body]
    async fn report_check_interval(&mut self, install_source: InstallSource) -> (r: ()) { unimplemented!() }

    #[verifier::external_body]
    async fn do_omaha_request_and_update_context<'a>(
        &'a mut self,
        builder: &RequestBuilder<'a>,
        co: &mut async_generator::Yield<StateMachineEvent>,
    ) -> (r: Result<(Parts, Vec<u8>, Option<RequestMetadata>, Option<DerSignature>), OmahaRequestError>)
        ensures final(co)@.len() >= old(co)@.len(), forall|i: int| 0 <= i < old(co)@.len() ==> final(co)@[i] == old(co)@[i]
    { unimplemented!() }

    #[verifier::external_body]
    async fn report_omaha_event_and_update_context<'a>(
        &'a mut self,
        request_params: &'a RequestParams,
        event: Event,
        apps: impl IntoIterator<Item = &App>,
        session_id: &GUID,
        next_versions: &HashMap<String, Option<String>>,
        install_duration: Option<Duration>,
        co: &mut async_generator::Yield<StateMachineEvent>,
    ) -> (r: ())
        ensures final(co)@.len() >= old(co)@.len(), forall|i: int| 0 <= i < old(co)@.len() ==> final(co)@[i] == old(co)@[i]
    { unimplemented!() }

    #[verifier::external_body]
    fn parse_omaha_response(data: &[u8]) -> Result<Response, ResponseParseError> { unimplemented!() }
    #[verifier::external_body]
    fn get_app_update_statuses(response: &Response) -> Vec<(&str, &OmahaStatus)> { unimplemented!() }
    #[verifier::external_body]
    fn make_not_updated_result(response: Response, action: update_check::Action)
        -> Result<(update_check::Response, RebootAfterUpdate<IN::InstallResult>), UpdateCheckError> { unimplemented!() }
    async fn yield_state(state: State, co: &mut async_generator::Yield<StateMachineEvent>) -> (r: ())
        ensures final(co)@ == old(co)@.push(StateMachineEvent::StateChange(state))
    {
        co.yield_(StateMachineEvent::StateChange(state)).await;
    }
    #[verifier::external_body]
    fn report_metrics(&mut self, metrics: Metrics) { unimplemented!() }
    #[verifier::external_body]
    async fn record_update_first_seen_time(&mut self, install_plan_id: &str, now: SystemTime) -> SystemTime { unimplemented!() }

    async fn perform_update_check(
        &mut self,
        request_params: RequestParams,
        apps: Vec<App>,
        co: &mut async_generator::Yield<StateMachineEvent>,
    ) -> (res: Result<(update_check::Response, RebootAfterUpdate<IN::InstallResult>), UpdateCheckError>)
        ensures
            (final(co)@.len() > old(co)@.len()) && final(co)@[old(co)@.len() as int] == StateMachineEvent::StateChange(State::CheckingForUpdates(request_params.source)),
    {
        Self::yield_state(State::CheckingForUpdates(request_params.source), co).await;

        self.report_check_interval(request_params.source).await;

        // Construct a request for the app(s).
        let config = self.config.clone();
        let mut request_builder = RequestBuilder::new(&config, &request_params);
        for app in &apps {
            request_builder = request_builder.add_update_check(app).add_ping(app);
        }
        let session_id = GUID::new();
        request_builder = request_builder.session_id(session_id.clone());

        let mut omaha_request_attempt: u64 = 1;

        // Attempt in an loop of up to MAX_OMAHA_REQUEST_ATTEMPTS to communicate with Omaha.
        // exit the loop early on success or an error that isn't related to a transport issue.
        let mut __brk = None;
        loop
            invariant_except_break 1 <= omaha_request_attempt <= 3, co@.len() > old(co)@.len(), co@[old(co)@.len() as int] == StateMachineEvent::StateChange(State::CheckingForUpdates(request_params.source)),
            ensures __brk is Some, 1 <= omaha_request_attempt <= 3, co@.len() > old(co)@.len(), co@[old(co)@.len() as int] == StateMachineEvent::StateChange(State::CheckingForUpdates(request_params.source)),
            decreases 3 - omaha_request_attempt
        {
            // Mark the start time for the request to omaha.
            let omaha_check_start_time = self.time_source.now_in_monotonic();
            request_builder = request_builder.request_id(GUID::new());
            let result = self
                .do_omaha_request_and_update_context(&request_builder, co)
                .await;

            // Report the response time of the omaha request.
            {
                // don't use Instant::elapsed(), it doesn't use the right TimeSource, and can panic!
                // as a result
                let now = self.time_source.now_in_monotonic();
                let duration = now.checked_duration_since(omaha_check_start_time);

                if let Some(response_time) = duration {
                    self.report_metrics(Metrics::UpdateCheckResponseTime {
                        response_time,
                        successful: result.is_ok(),
                    });
                } else {
                    // If this happens, it's a bug.
                    
                }
            }

            match result {
                Ok(res) => {
                    __brk = Some(Ok(res)); break;
                }
                Err(OmahaRequestError::Json(e)) => {
                    
                    Self::yield_state(State::ErrorCheckingForUpdate, co).await;
                    __brk = Some(Err(UpdateCheckError::OmahaRequest(e.into()))); break;
                }
                Err(OmahaRequestError::HttpBuilder(e)) => {
                    
                    Self::yield_state(State::ErrorCheckingForUpdate, co).await;
                    __brk = Some(Err(UpdateCheckError::OmahaRequest(e.into()))); break;
                }
                Err(OmahaRequestError::CupDecoration(e)) => {
                    
                    Self::yield_state(State::ErrorCheckingForUpdate, co).await;
                    __brk = Some(Err(UpdateCheckError::OmahaRequest(e.into()))); break;
                }
                Err(OmahaRequestError::CupValidation(e)) => {
                    
                    Self::yield_state(State::ErrorCheckingForUpdate, co).await;
                    __brk = Some(Err(UpdateCheckError::OmahaRequest(e.into()))); break;
                }
                Err(OmahaRequestError::HttpTransport(e)) => {
                    
                    // Don't retry if the error was caused by user code, which means we weren't
                    // using the library correctly.
                    if omaha_request_attempt >= MAX_OMAHA_REQUEST_ATTEMPTS
                        || e.is_user()
                        || self.context.state.server_dictated_poll_interval.is_some()
                    {
                        Self::yield_state(State::ErrorCheckingForUpdate, co).await;
                        __brk = Some(Err(UpdateCheckError::OmahaRequest(e.into()))); break;
                    }
                }
                Err(OmahaRequestError::HttpStatus(e)) => {
                    
                    if omaha_request_attempt >= MAX_OMAHA_REQUEST_ATTEMPTS
                        || self.context.state.server_dictated_poll_interval.is_some()
                    {
                        Self::yield_state(State::ErrorCheckingForUpdate, co).await;
                        __brk = Some(Err(UpdateCheckError::OmahaRequest(e.into()))); break;
                    }
                }
            }

            // TODO(https://fxbug.dev/42117854): Move this to Policy.
            // Randomized exponential backoff of 1, 2, & 4 seconds, +/- 500ms.
            let backoff_time_secs = 1 << (omaha_request_attempt - 1);
            assert(backoff_time_secs == 1 || backoff_time_secs == 2 || backoff_time_secs == 4) by (bit_vector)
                requires backoff_time_secs == 1u64 << (omaha_request_attempt - 1) as u64, 1 <= omaha_request_attempt <= 3;
            let backoff_time = randomize(backoff_time_secs * 1000, 1000);
            
            self.timer
                .wait_for(Duration::from_millis(backoff_time))
                .await;

            omaha_request_attempt += 1;
        }
        let loop_result = __brk.unwrap();

        self.report_metrics(Metrics::RequestsPerCheck {
            count: omaha_request_attempt,
            successful: loop_result.is_ok(),
        });

        let (_parts, data, request_metadata, signature) = loop_result?;

        let response = match Self::parse_omaha_response(&data) {
            Ok(res) => res,
            Err(err) => {
                
                Self::yield_state(State::ErrorCheckingForUpdate, co).await;
                self.report_omaha_event_and_update_context(
                    &request_params,
                    Event::error(EventErrorCode::ParseResponse),
                    &apps,
                    &session_id,
                    &apps.iter().map(|app| (app.id.clone(), None)).collect(),
                    None,
                    co,
                )
                .await;
                return Err(UpdateCheckError::ResponseParser(err));
            }
        };

        

        co.yield_(StateMachineEvent::OmahaServerResponse(response.clone()))
            .await;

        let statuses = Self::get_app_update_statuses(&response);
        for (app_id, status) in &statuses {
            // TODO:  Report or metric statuses other than 'no-update' and 'ok'
            
        }

        let apps_with_update: Vec<_> = response
            .apps
            .iter()
            .filter(|app| {
                matches!(
                    app.update_check,
                    Some(UpdateCheck {
                        status: OmahaStatus::Ok,
                        ..
                    })
                )
            })
            .collect();

        if apps_with_update.is_empty() {
            // A successful, no-update, check

            Self::yield_state(State::NoUpdateAvailable, co).await;
            Self::make_not_updated_result(response, update_check::Action::NoUpdate)
        } else {
            
            // A map from app id to the new version of the app, if an app has no update, then it
            // won't appear in this map, if an app has update but there's no version in the omaha
            // response, then its entry will be None.
            let next_versions: HashMap<String, Option<String>> = apps_with_update
                .iter()
                .map(|app| (app.id.clone(), app.get_manifest_version()))
                .collect();
            let install_plan = match self
                .installer
                .try_create_install_plan(
                    &request_params,
                    request_metadata.as_ref(),
                    &response,
                    data,
                    signature.map(|s| s.as_bytes().to_vec()),
                )
                .await
            {
                Ok(plan) => plan,
                Err(e) => {
                    
                    Self::yield_state(State::InstallingUpdate, co).await;
                    Self::yield_state(State::InstallationError, co).await;
                    self.report_omaha_event_and_update_context(
                        &request_params,
                        Event::error(EventErrorCode::ConstructInstallPlan),
                        &apps,
                        &session_id,
                        &next_versions,
                        None,
                        co,
                    )
                    .await;
                    return Err(UpdateCheckError::InstallPlan(vx_anyhow_from(e)));
                }
            };

            
            let install_plan_decision = self.policy_engine.update_can_start(&install_plan).await;
            match install_plan_decision {
                UpdateDecision::Ok => {
                    
                }
                UpdateDecision::DeferredByPolicy => {
                    
                    // Report "error" to Omaha (as this is an event that needs reporting as the
                    // install isn't starting immediately.
                    let event = Event {
                        event_type: EventType::UpdateComplete,
                        event_result: EventResult::UpdateDeferred,
                        ..Event::default()
                    };
                    self.report_omaha_event_and_update_context(
                        &request_params,
                        event,
                        &apps,
                        &session_id,
                        &next_versions,
                        None,
                        co,
                    )
                    .await;

                    Self::yield_state(State::InstallationDeferredByPolicy, co).await;

                    return Self::make_not_updated_result(
                        response,
                        update_check::Action::DeferredByPolicy,
                    );
                }
                UpdateDecision::DeniedByPolicy => {
                    
                    self.report_omaha_event_and_update_context(
                        &request_params,
                        Event::error(EventErrorCode::DeniedByPolicy),
                        &apps,
                        &session_id,
                        &next_versions,
                        None,
                        co,
                    )
                    .await;

                    return Self::make_not_updated_result(
                        response,
                        update_check::Action::DeniedByPolicy,
                    );
                }
            }

            Self::yield_state(State::InstallingUpdate, co).await;
            self.report_omaha_event_and_update_context(
                &request_params,
                Event::success(EventType::UpdateDownloadStarted),
                &apps,
                &session_id,
                &next_versions,
                None,
                co,
            )
            .await;

            let install_plan_id = install_plan.id();
            let update_start_time = self.time_source.now_in_walltime();
            let update_first_seen_time = self
                .record_update_first_seen_time(&install_plan_id, update_start_time)
                .await;

            let ((install_result, mut app_install_results), ()) = (self.vx_frag_install(&install_plan, co).await, ());
            let no_apps_failed = app_install_results.iter().all(|result| {
                matches!(
                    result,
                    AppInstallResult::Installed | AppInstallResult::Deferred
                )
            });
            let update_finish_time = self.time_source.now_in_walltime();
            let install_duration = match update_finish_time.duration_since(update_start_time) {
                Ok(duration) => {
                    let metrics = if no_apps_failed {
                        Metrics::SuccessfulUpdateDuration(duration)
                    } else {
                        Metrics::FailedUpdateDuration(duration)
                    };
                    self.report_metrics(metrics);
                    Some(duration)
                }
                Err(e) => {
                    
                    None
                }
            };

            let config = self.config.clone();
            let mut request_builder = RequestBuilder::new(&config, &request_params);
            let mut events = vec![];
            let mut installed_apps = vec![];
            for (response_app, app_install_result) in
                apps_with_update.iter().zip(&app_install_results)
            {
                match apps.iter().find(|app| app.id == response_app.id) {
                    Some(app) => {
                        let event = match app_install_result {
                            AppInstallResult::Installed => {
                                installed_apps.push(app);
                                Event::success(EventType::UpdateDownloadFinished)
                            }
                            AppInstallResult::Deferred => Event {
                                event_type: EventType::UpdateComplete,
                                event_result: EventResult::UpdateDeferred,
                                ..Event::default()
                            },
                            AppInstallResult::Failed(_) => {
                                Event::error(EventErrorCode::Installation)
                            }
                        };
                        let event = Event {
                            previous_version: Some(app.version.to_string()),
                            next_version: response_app.get_manifest_version(),
                            download_time_ms: install_duration
                                .and_then(|d| d.as_millis().try_into().ok()),
                            ..event
                        };
                        request_builder = request_builder.add_event(app, event.clone());
                        events.push(event);
                    }
                    None => {
                        
                    }
                }
            }
            request_builder = request_builder
                .session_id(session_id.clone())
                .request_id(GUID::new());
            if let Err(e) = self
                .do_omaha_request_and_update_context(&request_builder, co)
                .await
            {
                for event in events {
                    self.report_metrics(Metrics::OmahaEventLost(event));
                }
                
            }

            // TODO: Verify downloaded update if needed.

            // For apps that successfully installed, we need to report an extra `UpdateComplete` event.
            if !installed_apps.is_empty() {
                self.report_omaha_event_and_update_context(
                    &request_params,
                    Event::success(EventType::UpdateComplete),
                    installed_apps,
                    &session_id,
                    &next_versions,
                    install_duration,
                    co,
                )
                .await;
            }

            let mut errors = vec![];
            let app_responses = vx_frag_app_responses(response, app_install_results, &mut errors);

            if !errors.is_empty() {
                for e in errors
                    invariant co@.len() > old(co)@.len(), co@[old(co)@.len() as int] == StateMachineEvent::StateChange(State::CheckingForUpdates(request_params.source))
                {
                    co.yield_(StateMachineEvent::InstallerError(Some(vx_box_dyn_error(e))))
                        .await;
                }
                Self::yield_state(State::InstallationError, co).await;

                return Ok((
                    update_check::Response { app_responses },
                    RebootAfterUpdate::NotNeeded,
                ));
            }

            match update_finish_time.duration_since(update_first_seen_time) {
                Ok(duration) => {
                    self.report_metrics(Metrics::SuccessfulUpdateFromFirstSeen(duration))
                }
                Err(e) => (),
            }
            {
                let mut storage = self.storage_ref.lock().await;
                if let Err(e) = storage
                    .set_time(UPDATE_FINISH_TIME, update_finish_time)
                    .await
                {
                    
                }
                let app_set = self.app_set.lock().await;
                let system_app_id = app_set.get_system_app_id();
                // If not found then this is not a system update, so no need to write target version.
                if let Some(next_version) = next_versions.get(system_app_id) {
                    let target_version = next_version.as_deref().unwrap_or_else(|| {
                        
                        "UNKNOWN"
                    });
                    if let Err(e) = storage.set_string(TARGET_VERSION, target_version).await {
                        
                    }
                }
                storage.commit_or_log().await;
            }

            let reboot_after_update = if self.policy_engine.reboot_needed(&install_plan).await {
                RebootAfterUpdate::Needed(install_result)
            } else {
                RebootAfterUpdate::NotNeeded
            };

            Ok((
                update_check::Response { app_responses },
                reboot_after_update,
            ))
        }
    }

}
}
fn main(){}
