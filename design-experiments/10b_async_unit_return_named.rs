use vstd::prelude::*;
use vstd::future::*;
use core::future::Future;
use core::pin::Pin;
use core::task::{Context as TaskContext, Poll};
verus! {
#[verifier::external_body]
#[verifier::reject_recursive_types(T)]
pub struct BoxFuture<'a, T> { _p: core::marker::PhantomData<&'a T> }
#[verifier::external]
impl<'a, T> Future for BoxFuture<'a, T> { type Output = T; fn poll(self: Pin<&mut Self>, _cx: &mut TaskContext<'_>) -> Poll<T> { unimplemented!() } }
pub enum Ev { A, B(u8) }
#[verifier::external_body]
#[verifier::reject_recursive_types(I)]
pub struct Yield<I> { _p: core::marker::PhantomData<I> }
impl<I> Yield<I> {
    pub uninterp spec fn view(&self) -> Seq<I>;
    #[verifier::external_body]
    pub fn yield_<'a>(&'a mut self, item: I) -> (f: BoxFuture<'a, ()>)
        ensures f.awaited() ==> final(self)@ == old(self)@.push(item)
    { unimplemented!() }
}
pub struct SM { pub n: u32 }
impl SM {
    async fn ys(x: u8, co: &mut Yield<Ev>) -> (r: ())
        ensures final(co)@ == old(co)@.push(Ev::B(x))
    {
        co.yield_(Ev::B(x)).await;
    }
    async fn t1(&mut self, co: &mut Yield<Ev>, x: u8)
        ensures final(co)@.len() == old(co)@.len() + 1
    {
        Self::ys(x, co).await;
        assert(co@.len() == old(co)@.len() + 1);
    }
    async fn t2(&mut self, co: &mut Yield<Ev>, x: u8)
        ensures final(co)@.len() == old(co)@.len() + 1
    {
        Self::ys(x, co).await;
    }
}
}
fn main(){}
