use vstd::prelude::*;
use std::collections::HashMap;
verus! {
#[derive(Clone, Debug, Default, Eq, PartialEq)]
pub struct Cohort { pub id: Option<String>, pub hint: Option<String>, pub name: Option<String> }
#[derive(Clone, Debug, Eq, PartialEq)]
pub enum UserCounting { ClientRegulatedByDate(Option<u32>) }
#[derive(Clone, Copy, Debug, Default, Eq, PartialEq)]
pub enum InstallSource { OnDemand, #[default] ScheduledTask }

impl Cohort {
    pub fn update_from_omaha(&mut self, omaha_cohort: Self)
        ensures
            final(self).id == (if omaha_cohort.id is Some { omaha_cohort.id } else { old(self).id }),
            final(self).hint == (if omaha_cohort.hint is Some { omaha_cohort.hint } else { old(self).hint }),
            final(self).name == (if omaha_cohort.name is Some { omaha_cohort.name } else { old(self).name }),
    {
        if omaha_cohort.id.is_some() {
            self.id = omaha_cohort.id;
        }
        if omaha_cohort.hint.is_some() {
            self.hint = omaha_cohort.hint;
        }
        if omaha_cohort.name.is_some() {
            self.name = omaha_cohort.name;
        }
    }
}
fn t(c: &Cohort, u: &UserCounting, s: InstallSource, m: &HashMap<String, Option<String>>, k: &String) -> (r: bool)
{
    let c2 = c.clone();
    assert(c2 == *c);
    let u2 = u.clone();
    assert(u2 == *u);
    let d = Cohort::default();
    assert(d.id is None);
    let b = *u == UserCounting::ClientRegulatedByDate(None);
    assert(b == (*u == UserCounting::ClientRegulatedByDate(None)));
    let e = s == InstallSource::OnDemand;
    if let Some(v) = m.get(k) { assert(m@.contains_key(*k)); }
    b && e
}
}
fn main(){}
