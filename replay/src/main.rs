//! Witness search / replay against the *real* omaha-client code (never decides anything: the
//! verifier does; this only tries to turn a failed obligation into a concrete failing input).
//! usage: vx_replay search <obligation> | vx_replay run <obligation> <input-json>
use omaha_client::time::system_time_conversion::{
    checked_system_time_to_micros_from_epoch, micros_from_epoch_to_system_time,
};
use omaha_client::time::{ComplexTime, PartialComplexTime};
use serde_json::{json, Value};
use std::time::{Duration, Instant, SystemTime};

fn st_from_ns(ns: i128) -> Option<SystemTime> {
    let mag = ns.unsigned_abs();
    let d = Duration::new((mag / 1_000_000_000) as u64, (mag % 1_000_000_000) as u32);
    if mag / 1_000_000_000 > u64::MAX as u128 {
        return None;
    }
    if ns >= 0 {
        SystemTime::UNIX_EPOCH.checked_add(d)
    } else {
        SystemTime::UNIX_EPOCH.checked_sub(d)
    }
}
fn ns_of(t: SystemTime) -> i128 {
    match t.duration_since(SystemTime::UNIX_EPOCH) {
        Ok(d) => d.as_nanos() as i128,
        Err(e) => -(e.duration().as_nanos() as i128),
    }
}
fn trunc_div(a: i128, b: i128) -> i128 {
    a / b // Rust integer division truncates toward zero
}
fn spec_to_micros(ns: i128) -> Option<i64> {
    i64::try_from(trunc_div(ns, 1000)).ok()
}

fn ns_candidates() -> Vec<i128> {
    let mut v: Vec<i128> = vec![];
    let base: Vec<i128> = vec![
        0,
        1,
        999,
        1000,
        1001,
        5000,
        5300,
        1_000_000_000,
        123_456_789_123,
        i64::MAX as i128 * 1000,
        i64::MAX as i128 * 1000 + 999,
        i64::MAX as i128 * 1000 + 1000,
        i64::MIN as i128 * 1000 * -1,
        (i64::MAX as i128) * 1_000_000_000 - 1,
    ];
    for b in base {
        for d in [-1001i128, -1000, -999, -1, 0, 1, 999, 1000, 1001] {
            v.push(b + d);
            v.push(-(b + d));
        }
    }
    v
}
fn micros_candidates() -> Vec<i64> {
    let mut v = vec![];
    for b in [0i64, 1, 999, 1000, 123456789, i64::MAX, i64::MIN, i64::MAX / 1000, i64::MIN / 1000] {
        for d in [-2i64, -1, 0, 1, 2] {
            if let Some(x) = b.checked_add(d) {
                v.push(x);
                if let Some(n) = x.checked_neg() {
                    v.push(n);
                }
            }
        }
    }
    v
}

/// One update check through the public API with `stored` under the given storage key, an HTTP
/// stub that answers 200 with an empty body (=> the check fails to parse the response).
fn one_check_with_storage(key: &str, stored: i64) -> Result<(), String> {
    use futures::lock::Mutex;
    use futures::StreamExt;
    use omaha_client::{
        app_set::VecAppSet,
        common::App,
        configuration::{Config, Updater},
        cup_ecdsa::StandardCupv2Handler,
        http_request::StubHttpRequest,
        installer::stub::StubInstaller,
        metrics::StubMetricsReporter,
        policy::StubPolicyEngine,
        protocol::request::OS,
        state_machine::StateMachineBuilder,
        storage::{MemStorage, Storage},
        time::{timers::StubTimer, StandardTimeSource},
    };
    use std::rc::Rc;
    let key = key.to_string();
    let r = std::panic::catch_unwind(move || {
        futures::executor::block_on(async move {
            let mut storage = MemStorage::new();
            storage.set_int(&key, stored).await.unwrap();
            storage.commit().await.unwrap();
            let config = Config {
                updater: Updater { name: "updater".to_string(), version: [1, 2, 3, 4].into() },
                os: OS::default(),
                service_url: "http://example.com/".to_string(),
                omaha_public_keys: None,
            };
            let app_set = VecAppSet::new(vec![App::builder().id("app").version([1, 2, 3, 4]).build()]);
            let events = StateMachineBuilder::new(
                StubPolicyEngine::<omaha_client::installer::stub::StubPlan, _>::new(StandardTimeSource),
                StubHttpRequest,
                StubInstaller::default(),
                StubTimer,
                StubMetricsReporter,
                Rc::new(Mutex::new(storage)),
                config,
                Rc::new(Mutex::new(app_set)),
                None::<StandardCupv2Handler>,
            )
            .oneshot_check()
            .await;
            let v: Vec<_> = events.collect().await;
            v.len()
        })
    });
    match r {
        Ok(_) => Ok(()),
        Err(p) => Err(p.downcast_ref::<String>().cloned().or_else(|| p.downcast_ref::<&str>().map(|s| s.to_string())).unwrap_or_else(|| "panic".into())),
    }
}

/// returns Some(description) when the obligation is violated on this input
fn eval(ob: &str, input: &Value) -> Result<Option<Value>, String> {
    match ob {
        "C19.to_micros_truncates_toward_epoch_none_iff_unfit" => {
            let ns: i128 = input["ns"].as_str().ok_or("ns")?.parse().map_err(|_| "ns")?;
            let t = match st_from_ns(ns) {
                Some(t) => t,
                None => return Ok(None),
            };
            let got = std::panic::catch_unwind(|| checked_system_time_to_micros_from_epoch(t));
            let exp = spec_to_micros(ns);
            match got {
                Err(_) => Ok(Some(json!({"observed": "panic", "expected": format!("{:?}", exp)}))),
                Ok(g) if g != exp => Ok(Some(json!({"observed": format!("{:?}", g), "expected": format!("{:?}", exp)}))),
                _ => Ok(None),
            }
        }
        "C19.from_micros_exact" | "C19.micros_roundtrip_identity" => {
            let m: i64 = input["micros"].as_i64().ok_or("micros")?;
            let got = std::panic::catch_unwind(|| {
                let t = micros_from_epoch_to_system_time(m);
                (ns_of(t), checked_system_time_to_micros_from_epoch(t))
            });
            match got {
                Err(_) => Ok(Some(json!({"observed": "panic"}))),
                Ok((ns, back)) => {
                    if ns != m as i128 * 1000 {
                        return Ok(Some(json!({"observed_ns": ns.to_string(), "expected_ns": (m as i128 * 1000).to_string()})));
                    }
                    if ob == "C19.micros_roundtrip_identity" && back != Some(m) {
                        return Ok(Some(json!({"observed_roundtrip": format!("{:?}", back), "expected": format!("Some({})", m)})));
                    }
                    Ok(None)
                }
            }
        }
        "C19.truncate_agrees_with_storage_roundtrip" | "C19.truncate_is_truncation_toward_epoch" | "C19.truncate_idempotent"
        | "truncate_submicrosecond_walltime::no_panic" | "C19.truncate_keeps_mono" => {
            let ns: i128 = input["ns"].as_str().ok_or("ns")?.parse().map_err(|_| "ns")?;
            let t = match st_from_ns(ns) {
                Some(t) => t,
                None => return Ok(None),
            };
            let mono = Instant::now();
            let ct = ComplexTime { wall: t, mono };
            let got = std::panic::catch_unwind(|| {
                let r = ct.truncate_submicrosecond_walltime();
                let rr = r.truncate_submicrosecond_walltime();
                (ns_of(r.wall), ns_of(rr.wall), r.mono == mono)
            });
            match got {
                Err(_) => Ok(Some(json!({"observed": "panic"}))),
                Ok((r, rr, mono_ok)) => {
                    if ob.ends_with("::no_panic") {
                        return Ok(None); // only a panic falsifies a safety obligation
                    }
                    let exp = trunc_div(ns, 1000) * 1000;
                    if ob == "C19.truncate_keeps_mono" {
                        return Ok(if mono_ok { None } else { Some(json!({"observed": "mono changed"})) });
                    }
                    if ob == "C19.truncate_idempotent" {
                        return Ok(if r == rr { None } else { Some(json!({"once_ns": r.to_string(), "twice_ns": rr.to_string()})) });
                    }
                    if ob == "C19.truncate_agrees_with_storage_roundtrip" && spec_to_micros(ns).is_none() {
                        return Ok(None);
                    }
                    if r != exp {
                        return Ok(Some(json!({"observed_ns": r.to_string(), "expected_ns": exp.to_string(),
                            "storage_roundtrip_ns": spec_to_micros(ns).map(|m| ns_of(micros_from_epoch_to_system_time(m)).to_string())})));
                    }
                    Ok(None)
                }
            }
        }
        "C19.partial_to_micros" => {
            let ns: i128 = input["ns"].as_str().ok_or("ns")?.parse().map_err(|_| "ns")?;
            let t = match st_from_ns(ns) {
                Some(t) => t,
                None => return Ok(None),
            };
            let got = PartialComplexTime::Wall(t).checked_to_micros_since_epoch();
            let exp = spec_to_micros(ns);
            Ok(if got == exp { None } else { Some(json!({"observed": format!("{:?}", got), "expected": format!("{:?}", exp)})) })
        }
        "report_attempts_to_successful_check::no_panic" | "ping_omaha::no_panic" => {
            let stored = input["stored"].as_i64().ok_or("stored")?;
            match one_check_with_storage("consecutive_failed_update_checks", stored) {
                Ok(()) => Ok(None),
                Err(msg) => Ok(Some(json!({"observed": format!("panic: {}", msg), "scenario": "StateMachineBuilder + MemStorage{consecutive_failed_update_checks=stored} + StubHttpRequest, oneshot_check()"}))),
            }
        }
        _ => Err(format!("no evaluator for obligation {}", ob)),
    }
}

fn candidates(ob: &str) -> Vec<Value> {
    if ob.ends_with("::no_panic") && (ob.starts_with("report_attempts") || ob.starts_with("ping_omaha")) {
        return [0i64, 1, u32::MAX as i64 - 1, u32::MAX as i64, u32::MAX as i64 + 1, i64::MAX, -1, i64::MIN]
            .iter().map(|v| json!({"stored": v})).collect();
    }
    if ob.contains("from_micros") || ob.contains("micros_roundtrip") {
        micros_candidates().into_iter().map(|m| json!({"micros": m})).collect()
    } else {
        ns_candidates().into_iter().map(|n| json!({"ns": n.to_string()})).collect()
    }
}

fn main() {
    let args: Vec<String> = std::env::args().collect();
    std::panic::set_hook(Box::new(|_| {}));
    if args.len() >= 3 && args[1] == "search" {
        let ob = &args[2];
        let mut tried = 0;
        for c in candidates(ob) {
            tried += 1;
            match eval(ob, &c) {
                Ok(Some(obs)) => {
                    println!("{}", json!({"found": true, "input": c, "observation": obs, "candidates_tried": tried}));
                    return;
                }
                Ok(None) => {}
                Err(e) => {
                    println!("{}", json!({"found": false, "note": e}));
                    return;
                }
            }
        }
        println!("{}", json!({"found": false, "candidates_tried": tried, "note": "no boundary candidate falsifies the clause on the real code"}));
    } else if args.len() >= 4 && args[1] == "run" {
        let input: Value = serde_json::from_str(&args[3]).expect("input json");
        match eval(&args[2], &input) {
            Ok(Some(obs)) => {
                println!("{}", json!({"violated": true, "input": input, "observation": obs}));
                std::process::exit(1);
            }
            Ok(None) => println!("{}", json!({"violated": false, "input": input})),
            Err(e) => {
                println!("{}", json!({"error": e}));
                std::process::exit(2);
            }
        }
    } else {
        eprintln!("usage: vx_replay search <ob> | run <ob> <input-json>");
        std::process::exit(2);
    }
}
