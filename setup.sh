#!/bin/sh
# Offline setup after a fresh restore: build the extractor and the replay driver (and warm the
# Kani harness crate when present). Everything comes from files on disk / the cached registry.
set -e
cd "$(dirname "$0")"
export CARGO_NET_OFFLINE=true
(cd tools/vx && cargo build --release --offline --quiet)
python3 - <<'PY'
import sys, os
sys.path.insert(0, os.path.join(os.getcwd(), "tools"))
import witness
print("replay driver:", witness.build())
PY
if [ -x tools/kani_setup.sh ]; then tools/kani_setup.sh; fi
echo setup-ok
