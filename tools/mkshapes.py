#!/usr/bin/env python3
"""Records, for every unit under contract, how many closures and loops its extracted text contains
(specs/shapes.json).  ./check compares the current tree with this record: a unit that has gained or lost a
closure or a loop contains code no contract speaks about (a closure without a contract has an unconstrained
result), so its verdict is 'undecided: re-annotate', never an alarm.  Run on the unchanged tree after editing specs."""
import json, os, sys
sys.path.insert(0, os.path.dirname(os.path.abspath(__file__)))
import vxlib
shapes = {}
for g in vxlib.load_groups():
    outs = vxlib.run_vx(g)
    for n, o in outs.items():
        if o.get("n_closures") or o.get("n_loops"):
            shapes[f"{g['name']}:{n}"] = {"closures": o["n_closures"], "loops": o["n_loops"],
                                          "closure_hashes": sorted({c[2] for c in o.get("closure_info", [])})}
json.dump(shapes, open(os.path.join(vxlib.VERIF, "specs", "shapes.json"), "w"), indent=1, sort_keys=True)
print(len(shapes), "units with closures/loops recorded")
