#!/usr/bin/env python3
"""confirm_seed.py <seed_out_dir> <dest_name>
Independently confirms a seeded regression in a scratch worktree of /repo (HEAD):
 (1) patch applies, builds, and the 248 baseline tests pass;
 (2) the demonstration fails with the patch; (3) passes without it.
On success copies patch.diff, demo.diff, meta.json to /verif/seeded/<dest_name>/ (meta extended)."""
import json, os, subprocess, sys, shutil
src, dest = sys.argv[1], sys.argv[2]
WT = "/tmp/wt/confirm"
TGT = "/tmp/wt/confirm-target"
def sh(cmd, cwd=WT, check=False):
    env = dict(os.environ, CARGO_TARGET_DIR=TGT, CARGO_NET_OFFLINE="true")
    p = subprocess.run(cmd, shell=True, cwd=cwd, env=env, capture_output=True, text=True)
    if check and p.returncode != 0:
        print(p.stdout[-2000:], p.stderr[-2000:]); sys.exit(f"FAILED: {cmd}")
    return p
if not os.path.isdir(WT):
    sh(f"git -C /repo worktree add -q --detach {WT} HEAD", cwd="/", check=True)
sh("git checkout -q --detach main 2>/dev/null; git reset -q --hard main; git clean -qfd", check=True)
meta = json.load(open(os.path.join(src, "meta.json")))
demo_cmd = meta["demo_cmd"]
# normalise demo command: strip cd / CARGO_TARGET_DIR prefixes the agent put in
import re
demo_cmd = re.sub(r"cd \S+ && ", "", demo_cmd)
demo_cmd = re.sub(r"CARGO_TARGET_DIR=\S+ ", "", demo_cmd)
if "--offline" not in demo_cmd: demo_cmd += " --offline"
res = {}
sh(f"git apply {src}/patch.diff", check=True)
p = sh("cargo test --workspace --no-fail-fast --offline 2>&1 | grep -E '^test result|error(\\[|:)' ")
ok = [l for l in p.stdout.split("\n") if l.startswith("test result")]
passed = sum(int(re.search(r"(\d+) passed", l).group(1)) for l in ok)
failed = sum(int(re.search(r"(\d+) failed", l).group(1)) for l in ok)
res["suite_with_patch"] = f"{passed} passed, {failed} failed"
if failed or passed < 248 or "error" in p.stdout:
    print(p.stdout[-1500:]); sys.exit(f"seed rejected: baseline does not pass with patch ({res})")
sh(f"git apply {src}/demo.diff", check=True)
p = sh(demo_cmd + " 2>&1 | tail -30")
res["demo_with_patch_fails"] = ("test result: FAILED" in p.stdout) or ("FAILED" in p.stdout and "passed" in p.stdout)
if not res["demo_with_patch_fails"]:
    print(p.stdout[-1500:]); sys.exit("seed rejected: demo does not fail with patch")
sh(f"git apply -R {src}/patch.diff", check=True)
p = sh(demo_cmd + " 2>&1 | tail -30")
res["demo_without_patch_passes"] = ("test result: ok" in p.stdout) and ("FAILED" not in p.stdout)
if not res["demo_without_patch_passes"]:
    print(p.stdout[-1500:]); sys.exit("seed rejected: demo does not pass without patch")
sh("git reset -q --hard main; git clean -qfd")
d = os.path.join("/verif/seeded", dest)
os.makedirs(d, exist_ok=True)
for f in ("patch.diff", "demo.diff"):
    shutil.copy(os.path.join(src, f), os.path.join(d, f))
meta["confirmed"] = res
meta["confirmed_how"] = "tools/confirm_seed.py in a scratch worktree of /repo HEAD: full workspace suite with patch; demo with patch (fails); demo without patch (passes)"
meta["demo_cmd"] = demo_cmd
meta["origin"] = "independent sub-agent given only the property text"
json.dump(meta, open(os.path.join(d, "meta.json"), "w"), indent=1)
print("CONFIRMED", dest, res)
