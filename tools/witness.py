"""Witness search / replay driver: builds /verif/replay against the current /repo and asks it for
a concrete failing input of a failed obligation.  Never decides a property."""
import json
import os
import shutil
import subprocess

VERIF = os.path.dirname(os.path.dirname(os.path.abspath(__file__)))
REPO = os.environ.get("VERIF_REPO", "/repo")
WORK = os.path.join(VERIF, ".cache", "replay")
TARGET = os.path.join(VERIF, ".cache", "replay-target")


def build():
    os.makedirs(os.path.join(WORK, "src"), exist_ok=True)
    t = open(os.path.join(VERIF, "replay", "Cargo.toml.in")).read().replace("@REPO@", REPO)
    open(os.path.join(WORK, "Cargo.toml"), "w").write(t)
    shutil.copy(os.path.join(VERIF, "replay", "src", "main.rs"), os.path.join(WORK, "src", "main.rs"))
    lock = os.path.join(REPO, "Cargo.lock")
    if os.path.exists(lock) and not os.path.exists(os.path.join(WORK, "Cargo.lock")):
        shutil.copy(lock, os.path.join(WORK, "Cargo.lock"))
    env = dict(os.environ, CARGO_TARGET_DIR=TARGET, CARGO_NET_OFFLINE="true")
    p = subprocess.run(["cargo", "build", "--offline", "--quiet"], cwd=WORK, env=env, capture_output=True, text=True, timeout=1200)
    if p.returncode != 0:
        raise RuntimeError("replay build failed: " + p.stderr[-800:])
    return os.path.join(TARGET, "debug", "vx_replay")


def search(pid, ob, fs):
    exe = build()
    p = subprocess.run([exe, "search", ob], capture_output=True, text=True, timeout=300)
    try:
        r = json.loads(p.stdout.strip().split("\n")[-1])
    except Exception:
        return {"found": False, "note": "witness driver produced no result: " + p.stderr[-300:]}
    r["driver"] = "replay/src/main.rs against " + REPO
    return r


def replay(rec):
    exe = build()
    w = rec["witness"]
    p = subprocess.run([exe, "run", rec["obligation"], json.dumps(w["input"])], capture_output=True, text=True, timeout=300)
    print(p.stdout.strip())
    return 1 if p.returncode == 1 else 0
