#!/usr/bin/env python3
"""vxinfo.py <group> [unit]: print loop/closure/try counts and closure body hashes of units (for writing anchors)."""
import sys, os
sys.path.insert(0, os.path.dirname(os.path.abspath(__file__)))
import vxlib
g = next(g for g in vxlib.load_groups() if g["name"] == sys.argv[1])
outs = vxlib.run_vx(g)
for n, o in outs.items():
    if len(sys.argv) > 2 and n != sys.argv[2]:
        continue
    if o["n_loops"] or o["n_closures"] or o["n_tries"] or o.get("error"):
        print(n, "loops", o["n_loops"], "closures", o["n_closures"], "tries", o["n_tries"], "error", o.get("error"))
        for fn, k, h, p in o.get("closure_info", []):
            print("   closure", fn, k, "hash=" + h, "params", p)
