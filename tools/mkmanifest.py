#!/usr/bin/env python3
"""Regenerates /verif/MANIFEST.json from the table below (single source of truth for claims)."""
import json, os
V = os.path.dirname(os.path.dirname(os.path.abspath(__file__)))
ids = [json.loads(l)["id"] for l in open(os.path.join(V, "properties.jsonl"))]

TRUST = ("Trusted: Verus+Z3, rustc front end, the vx extractor (rewrite rules R0-R19 logged per run), the prelude "
         "stand-ins for dependencies (listed per run in evidence.trusted_base). ")

CLAIMS = {
 "C19": dict(
   text="Deductive proof (Verus) over the real functions of time.rs / time/complex.rs, extracted mechanically on every run: "
        "to/from-microsecond conversions against a mathematical model (truncation toward the epoch, None iff the value does not fit i64, "
        "identity round trip over all i64 as a lemma), truncate_submicrosecond_walltime (agreement with the storage round trip, idempotence lemma), "
        "component preservation of every Add/Sub/AddAssign/SubAssign/From impl, complete_with, destructure, and the iff for is_after_or_eq_any. "
        "All inputs, no bound.",
   note=TRUST + "std::time is modelled by stand-in types with integer-nanosecond views and platform ranges of Linux std; the panicking operators carry the "
        "platform overflow condition as a precondition (the property's quantifier excludes platform overflow). StorageExt::get_time/set_time are thin "
        "combinator wrappers (FutureExt::map / boxed) around the two verified conversion functions and are not themselves under contract.",
   technique="contract-based deductive verification (Verus) of mechanically extracted functions",
   design="4/C19"),
}

NA = {
 "C11": "Exactly-one reply under all interleavings and hang-freedom depend on futures mpsc/oneshot and scheduling; a dropped reply is invisible to a postcondition (DESIGN 4/C11).",
 "C13": "Quantifies over polling schedules and waker behaviour of Generator::poll_next (pin-projected, zero-capacity channel); neither Verus nor Kani models poll/wake (DESIGN 4/C13).",
 "C16": "The parser is serde-derive output plus serde_json; no contract-bearing function body in /repo decides totality or field fidelity (DESIGN 4/C16).",
}

def main():
    checks = []
    for pid in ids:
        if pid in CLAIMS:
            c = CLAIMS[pid]
            checks.append({
                "property_id": pid,
                "quick_cmd": f"./check {pid} --tier quick",
                "thorough_cmd": f"./check {pid} --tier thorough",
                "evidence_file": f"/verif/evidence/{pid}.json",
                "replay_cmd_template": f"./check {pid} --replay {{path}}",
                "engine": "vx+verus" + ("+kani" if c.get("kani") else ""),
                "level_claimed": {"category": c.get("category", "proof"), "text": c["text"], "design_ref": c["design"]},
                "level_note": c["note"],
                "technique": c["technique"],
            })
    na = []
    for pid in ids:
        if pid not in CLAIMS:
            na.append({"property_id": pid, "reason": NA.get(pid, "check not built yet (framework under construction; planned in DESIGN.md section 4)")})
    m = {
        "version": 1,
        "setup_cmd": "./setup.sh",
        "hooks": {"guard": "google_omaha_client_verif",
                  "enable": "(reserved, unused: contracts are spliced into text extracted from /repo on every run; no source hooks)",
                  "baseline_off_cmd": "cd /repo && cargo test --workspace --no-fail-fast --offline",
                  "source_commits": [], "add_only": True},
        "engines": [
            {"name": "vx+verus", "path": "/verif/check", "serves_properties": [c["property_id"] for c in checks],
             "kind_free_text": "syn-based extractor/splicer (tools/vx) + contracts (specs/*.vspec) + trusted prelude (prelude/*.rs) verified by Verus 0.2026.09.13 / Z3"},
        ],
        "checks": checks,
        "notes": "Exit codes of ./check: 0 held, 1 VIOLATION, 2 undecided (lost anchor / unsupported construct / resource limit; never an alarm). "
                 "Repairs of genuine defects found by the checks are 'fix:' commits in /repo, recorded in known_findings.json.",
        "not_applicable": na,
    }
    json.dump(m, open(os.path.join(V, "MANIFEST.json"), "w"), indent=1)
    print("claimed:", [c["property_id"] for c in checks])

if __name__ == "__main__":
    main()
