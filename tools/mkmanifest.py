#!/usr/bin/env python3
"""Regenerates /verif/MANIFEST.json from the table below (single source of truth for claims)."""
import json, os
V = os.path.dirname(os.path.dirname(os.path.abspath(__file__)))
ids = [json.loads(l)["id"] for l in open(os.path.join(V, "properties.jsonl"))]

TRUST = ("Trusted: Verus+Z3, rustc front end, the vx extractor (rewrite rules R0-R41 logged per run), the prelude "
         "stand-ins for dependencies (listed per run in evidence.trusted_base). ")

SMNOTE = (TRUST + "State-machine group: the embedder traits (Storage, PolicyEngine, Installer, Timer, TimeSource, MetricsReporter, HttpRequest, "
          "AppSet, Cupv2Handler) are stand-ins whose answers are unconstrained and whose interactions are recorded in ghost logs; Rc<Mutex<_>> is "
          "modelled as uniquely owned; RequestBuilder is an opaque type carrying the builder view; pinned fragments (the install join block, "
          "the app_responses closure, the target-version fallback closure), std iterator-adapter semantics of two outlined `map(..).collect::<HashMap>()` fragments and the derive expansions are assumed "
          "(the filter / find / all / fold adapters are stand-ins whose contracts are stated over the closure's own, verified, contract); RequestBuilder's assumed contracts are the ones proved of the real builder in the rb group; "
          "select! is replaced by a stand-in whose branch choice is arbitrary (any scheduler), pin/waker mechanics are dropped. ")

CLAIMS = {
 "C19": dict(
   text="Deductive proof (Verus) over the real functions of time.rs / time/complex.rs, extracted mechanically on every run: "
        "to/from-microsecond conversions against a mathematical model (truncation toward the epoch, None iff the value does not fit i64, "
        "identity round trip over all i64 as a lemma), truncate_submicrosecond_walltime (agreement with the storage round trip, idempotence lemma), "
        "component preservation of every Add/Sub/AddAssign/SubAssign/From impl, complete_with, destructure, and the iff for is_after_or_eq_any. "
        "All inputs, no bound.",
   note=TRUST + "std::time is modelled by stand-in types with integer-nanosecond views and platform ranges of Linux std; the panicking operators carry the "
        "platform overflow condition as a precondition (the property's quantifier excludes platform overflow). StorageExt::get_time/set_time (the real provided methods, storage group) are proved to store / return exactly these conversions, "
        "with FutureExt::map / boxed as value-carrying stand-ins.",
   technique="contract-based deductive verification (Verus) of mechanically extracted functions",
   design="4/C19"),
 "C01": dict(
   text="Proof (Verus) of the real StandardCupv2Handler::verify_response (accepted iff the ETag, stripped per parse_etag, is hex(DER sig):hex(SHA-256(request body)) with the request-hash equality over whole "
        "byte strings, the signature well-formed DER and valid under the key registered for the given id over SHA-256(SHA-256(req)||SHA-256(resp)||\"id:noncehex\"); accepted signature returned unchanged), "
        "make_transaction_hash (exact digest composition through a Sha256 stand-in with a ghost absorb buffer), verify_response_with_signature, StandardCupv2Handler::new (id->key map). "
        "parse_etag (slice patterns + unsafe from_utf8_unchecked) is now proved in Verus for ETags of ANY length: the slice-pattern match is rewritten mechanically into its if/else form (R40), the bytes/chars link for ASCII text is proved from vstd::utf8 (encode/decode lemmas), result == strip_etag(input). The earlier Kani harness (pointer/length oracle, ETag <= 64 bytes) is kept as a bounded memory-level cross-check, labelled bounded and not counted.",
   note=TRUST + "sha256, hex and ECDSA validity are uninterpreted (no collision-resistance/unforgeability reasoning: 'any change makes verification fail' holds up to those standard assumptions); "
        "the once().chain().map().collect() of new() is a pinned (assumed) fragment; assumed for parse_etag: hyper's HeaderValue::to_str yields ASCII only (axiom_header_text_is_ascii), core::str::from_utf8_unchecked returns the str over exactly the given bytes; the Kani part is bounded and not counted as proved.",
   technique="contract-based deductive verification (Verus) of mechanically extracted functions, parse_etag included; Kani harness (bounded) only as a cross-check of parse_etag", design="4/C01", kani=True),
 "C03": dict(
   text="Proof (Verus) of the real decorate_request (metadata = latest key id, a freshly drawn 32-byte nonce, exactly the serialised body; the URI gets exactly one cup2key=<id>:<hex nonce> parameter; body untouched), "
        "HttpUriExt::append_query_parameter (scheme/authority kept, path and existing query kept, &key=value or ?key=value appended), Nonce::new (fresh draw token), StandardCupv2Handler::new (latest id), "
        "Display for Nonce (the real impl over a formatter stand-in: the full lower-case hex of all 32 bytes), and, in the state-machine group, that the CUP handler stays configured across every exchange and that every attempt's request id is drawn anew.",
   note=TRUST + "format! contracts are generated from the literal; Uri parsing/printing is a stand-in (text of a parsed value equals the parsed string); nonce uniqueness across requests reduces to 'each request consumes one fresh RNG draw' "
        "(distinctness of draws is an assumption on thread_rng); RequestBuilder::build's use of the same Intermediate for wire body and metadata is claimed under C15 when that group is present.",
   technique="contract-based deductive verification (Verus) of mechanically extracted functions", design="4/C03"),
 "C20": dict(
   text="Proof (Verus) of the real Version::from_str: Ok iff the string split at '.' has at most four pieces each of which std's u32 parser accepts, components are those numbers in order and the missing trailing ones are zero; more than four pieces, an empty / non-numeric / overflowing piece are rejected; no panic (index and unwrap obligations). "
        "Proof (Verus) of the real Display impl: it writes exactly the four-part canonical text A.B.C.D (decimal components joined by '.'); lemma over the two contracts: parse(print(v)) = v for every v (split of the printed text yields the four decimal pieces, each read back by the u32 parser). "
        "Proof (Verus) of the real Serialize impl (hands exactly that canonical text to serialize_str) and of VersionVisitor::visit_str (Ok iff the parser's contract accepts the string, with the parsed version). "
        "Complete proofs by Kani/CBMC (loop-free harnesses over full-domain symbolic inputs, no bound): derived Ord/PartialOrd/Eq of Version equal numeric lexicographic comparison of the four components for all 2^256 pairs; From<[u32; n]> (impl_from! macro output) zero-fills for n = 1..4.",
   note=TRUST + "`s.split('.').map(f)` is replaced by a stand-in that applies f to every piece of split_spec(s, '.') (eager instead of lazy; contract over f's own contract, so the closure `|s| s.parse::<u32>()` is verified, with parse::<u32> as std's uninterpreted dec_u32: optional '+', digits, <= u32::MAX); enumerate() is a stand-in on that type; anyhow error values are opaque. "
        "Kani 0.68 / CBMC 6.11 and the harness oracle (lex_cmp written without loops) are trusted for the ordering half. itertools' `iter().format(sep)` is a stand-in (R39) whose Display text is the items' decimal texts joined by sep; assumed of std: u64 Display emits digits only and from_str reads it back (axiom_dec_str_roundtrip). serde's side (Serializer::serialize_str produces the string value; deserialize_str hands the decoded string to visit_str; `to_string()` is what Display writes) is assumed by stand-in traits; the JSON text itself is serde_json's.",
   technique="contract-based deductive verification (Verus) of the extracted function; Kani function-level harnesses, loop-free over full domain (complete)", design="4/C20", kani=True),
 "C02": dict(
   text="Proof (Verus) of the real do_omaha_request_and_update_context, ping_omaha, report_omaha_event_and_update_context and perform_update_check: "
        "with a CUP handler configured a response the handler rejects yields CupValidation iff rejected, and on that path context, event log and storage log are unchanged "
        "(no poll interval, no server-response event, no announcement); a failed ping counts exactly one failure and leaves schedule and app set untouched; "
        "a failed event report pushes exactly one OmahaEventLost and changes nothing else. For all responses, handlers, storage results.",
   note=SMNOTE + "The handler's verdict is an uninterpreted predicate here (its meaning is C01). The 'no retry after validation failure' and start_update_check clauses are claimed only as far as the units listed in the evidence.",
   technique="contract-based deductive verification (Verus) with ghost interaction logs", design="4/C02"),
 "C04": dict(
   text="Proof (Verus) of the real perform_update_check (475 lines), yield_state, make_app_responses, make_not_updated_result: the sequence of announced states equals a path table "
        "determined by the result and the policy log (error / no update / deferred / denied / installing / installation error), the server response is announced iff authenticated and parsed, "
        "the no-update path is taken iff the announced response offers no update, and the result lists the response's apps in order with cohort and day.",
   note=SMNOTE + "Per-app action alignment inside the app_responses closure is a pinned (assumed) fragment. run's clause (each check followed by Idle, WaitingForReboot in between iff a reboot is pending) is a loop invariant of the real run loop plus a spliced assertion; start_update_check's (schedule, protocol state, exactly one result last) a postcondition.",
   technique="contract-based deductive verification (Verus) with ghost interaction logs", design="4/C04"),
 "C05": dict(
   text="Proof (Verus) over the real run, wait_for_reboot, perform_update_check, ping_omaha, report_omaha_event_and_update_context: the machine returns without any interaction if an app is invalid; a negative check decision leads to no request/install in that iteration; "
        "a check runs with exactly the RequestParams inside the policy's decision and every request of the check (attempts, every event report, per-app report) carries them; the installer is invoked only after update_can_start answered Ok for that plan; "
        "reboot_needed is asked only after an install without failed app; perform_reboot happens exactly once and only when the most recent reboot_allowed answer is yes; the pending reboot question is upgraded to on-demand only by an on-demand request. "
        "App::valid <=> id non-empty and version != 0.0.0.0 by a Kani harness (complete over versions); AppSetExt::all_valid <=> every app valid (real body, apps group).",
   note=SMNOTE + "Branch choice of select! is arbitrary in the stand-in, so the clauses hold for every interleaving of timer firings and control requests at the granularity of await points; reply delivery (C11) is not modelled.",
   technique="contract-based deductive verification (Verus) with ghost interaction logs", design="4/C05"),
 "C06": dict(
   text="Proof (Verus): randomize's jitter window and dependence on a fresh RNG draw, is_user classification, one exchange per request (none on construction failure), transport error only without response, "
        "HttpStatus error iff non-2xx, pings and event reports sent at most once; the attempt loop of perform_update_check is bounded by 3 with verified safety obligations, "
        "every attempt is sent with a request id drawn after the previous exchange (never the id of an earlier attempt), and a check whose exchange failed always ends by reporting the requests-per-check metric.",
   note=SMNOTE + "Request-id freshness uses a ghost tag on GUID::new() (the number of exchanges made so far) that is consistent exactly under the assumption that uuid v4 draws never repeat. The full retry-condition table of the attempt loop is not a named obligation.",
   technique="contract-based deductive verification (Verus) with ghost interaction logs", design="4/C06"),
 "C07": dict(
   text="Proof (Verus) of the real do_omaha_request_and_update_context, Context::persist/load: after every authenticated response (any status) the poll interval equals min(N,86400)s for a decimal-u64 header and is absent otherwise; "
        "every change is announced once and persisted+committed before returning; no response leaves it unchanged; persist/load round trip at microsecond precision (lemma).",
   note=SMNOTE + "Header text parsing uses std's u64::from_str as an uninterpreted dec_u64 (leading '+' accepted by std is a documented reading).",
   technique="contract-based deductive verification (Verus) with ghost interaction logs", design="4/C07"),
 "C08": dict(
   text="Proof (Verus): failure counter (+1 saturating on failure, reset on success, ping included), persist_data = context block, app block, commit; Context::persist/load exact key encoding; "
        "StateMachineBuilder::build (the real body: lock, join!(app_set.load, Context::load)) starts a rebuilt machine from exactly what storage holds and writes nothing; round-trip lemma and crash-prefix lemma over the storage log (a crash at any point exposes exactly the last completed commit); StorageExt::{set_option_int, remove_or_log, commit_or_log} (real provided methods) issue exactly the one operation the state-machine contracts count on.",
   note=SMNOTE + "Assumes the documented Storage contract (writes cached until an atomic commit; reads return what was last written). last_update_time rules of start_update_check pending.",
   technique="contract-based deductive verification (Verus) with ghost interaction logs", design="4/C08"),
 "C09": dict(
   text="Proof (Verus) of the real Cohort::update_from_omaha (field-wise: a field the response carries, even empty, replaces; an absent one is kept), AppSetExt::update_from_omaha (every app of the set takes cohort merge and user counting of the FIRST response entry naming its id; apps not named are unchanged; nested loops with inductive invariants over the embedder's mutable app iterator), "
        "AppSetExt::persist (one record per app, in app order, no commit) and AppSetExt::load (every app restored from its own record), App::load (only unset cohort fields / unset user counting are filled from the record stored under the app id; undecodable or missing record changes nothing), App::persist (one SetString(app id, JSON of cohort + user counting), no commit), PersistedApp::from, VecAppSet's AppSet impl (witness that the assumed AppSet contract is implementable), lemma persist-then-load restores every unset field; "
        "in the state-machine group: a successful ping / update check updates the app set to exactly that function of the parsed response and a failed one leaves it unchanged; make_app_responses carries cohort and day number; UserCounting::from; the wire side (cohort, ping ad = rd) is C15's From<AppEntry>.",
   note=SMNOTE + "AppSet::iter_mut_apps is modelled as yielding mutable references to exactly get_apps' elements in order (Box<dyn Iterator> -> slice iterator type); serde_json (de)serialisation of PersistedApp is uninterpreted with an assumed round trip; AppSetExt::load/persist are async blocks in the source; their bodies are verified as free async fns over any AppSet (rule R36) and the state-machine group uses the same contract for persist.",
   technique="contract-based deductive verification (Verus) with ghost interaction logs", design="4/C09"),
 "C10": dict(
   text="Proof (Verus) of report_omaha_event_and_update_context: exactly the apps with an entry in next_versions get the event, with previous version = app version and next version = offered manifest version, "
        "session id kept, fresh request id, sent at most once, lost event counted exactly once iff delivery failed; Event::success/error shapes; manifest version accessor.",
   note=SMNOTE + "In perform_update_check: which event is reported on which path (parse error, plan error, deferred, denied, download started, per-app results, update complete), to exactly the offered apps (status ok, matched to known apps by id), and that every report is made before the function can return are named obligations; the per-app action alignment lives in an assumed fragment.",
   technique="contract-based deductive verification (Verus) with ghost interaction logs", design="4/C10"),
 "C12": dict(
   text="Proof (Verus) of update_next_update_time (policy asked with current apps/schedule/state, answer stored as next_update_time, one ScheduleChange announced), make_wait_to_next_check (timers armed for exactly the time bound and the minimum wait; "
        "the returned future's completion condition is Both(min wait, time bound) - not Either), run (the scheduled branch waits on exactly that future for exactly the policy's timing) and wait_for_reboot (reboot question re-asked by a control request only if it is on-demand).",
   note=SMNOTE + "Firing orders at the poll level are abstracted: a future built by join completes only when both sides did (stand-in contract of futures::future::join), by select when either did.",
   technique="contract-based deductive verification (Verus) with ghost interaction logs", design="4/C12"),
 "C14": dict(
   text="Proof (Verus): absence of panics/overflow (arithmetic, unwrap, index, callee preconditions) in every verified state-machine unit including the 475-line perform_update_check, Context::load on arbitrary stored integers, "
        "the time conversions, with all environment answers and all storage results unconstrained; the response-body guard stripper parse_safe_json is proved in Verus for bodies of ANY length (group resp: the decoder receives the body minus the 5-byte XSSI guard iff the body starts with it, else the whole body; the slice index is in bounds; the byte-string literal's contents come from a generated helper contract, R41; serde_json::from_slice is an uninterpreted function of the bytes it is handed); the earlier Kani harness (bodies up to 12 bytes) is kept as a bounded cross-check, labelled and not counted.",
   note=SMNOTE + "Dependencies (serde_json, http, hyper) and termination of run are out of scope; pinned fragments are assumed panic-free under their stated preconditions.",
   technique="contract-based deductive verification (Verus): safety obligations of every unit", design="4/C14", kani=True),
 "C18": dict(
   text="Proof (Verus) of record_update_first_seen_time (same plan: stored time, no write; new plan: id, time, commit, with exact failure handling), report_attempts_to_successful_install (count = stored+1 saturating, reported every call, reset on success), "
        "report_waited_for_reboot_duration (metric value and exactly-once, nothing on inconsistent clocks).",
   note=SMNOTE + "Also: finish time and the system app's target version are written and committed before reboot_needed is asked (spliced assertion in perform_update_check); run reports the reboot wait only with a stored finish time and a stored target version equal to the running OS version and clears the record (two removes + commit) only after a successful report. "
        "That the reported duration excludes later delays (start time captured once before the loop) is not covered.",
   technique="contract-based deductive verification (Verus) with ghost interaction logs", design="4/C18"),
 "C17": dict(
   text="Proof (Verus) of the real make_etag and PrivateKeys::find of the mock server: for every request target the client can build (any path and query) no panic; an ETag is produced iff the target is not \"/\", carries a cup2key pair (the first pair so named, wherever it stands in the query) "
        "and the server holds a key (latest first, then first historical entry) for the id before the first colon; the ETag is hex(DER sig):hex(SHA-256(request body)) with the signature made by that key over SHA-256(SHA-256(req)||SHA-256(resp)||cup2key value). "
        "Conformance lemma against the client verifier's contract (cup_etag_accepts, the predicate proved of verify_response under C01): the client holding the public half under that id accepts this ETag for that exchange, and the id the server parses back is the one the client named.",
   note=TRUST + "url::Url query parsing, hyper Bytes, sha2, hex and P-256 are stand-ins (query_pairs_of, sha256, hex_encode, ecdsa_sign uninterpreted; assumed: sign-then-verify, hex round trip and alphabet, decimal round trip). "
        "'for no other exchange' is unforgeability of ECDSA and collision resistance of SHA-256 and is not provable; the verified statement is that acceptance is tied to the digest of exactly (request, response, id, nonce) (C01). "
        "handle_omaha_request (serde_json document assembly), handle_set_responses and the end-to-end state-machine clause are not under contract, with one exception: the handler's decision which ETag goes into the reply (the scrutinee of `if let Some(etag) = ..`) is extracted positionally as a fragment (R25, fragments only) and verified: a forced ETag replaces the signed one, otherwise the signed one is sent, otherwise none.",
   technique="contract-based deductive verification (Verus) of mechanically extracted functions", design="4/C17"),
 "C15": dict(
   text="Proof (Verus) of the real RequestBuilder: new, insert_and_modify_entry (merge by app id: first insertion fixes position and app data incl. cohort; later insertions only run the modifier on that entry), add_update_check / add_ping / add_event (exact builder view after the call, events in insertion order, flags from the params), request_id / session_id, "
        "From<AppEntry> for protocol App (id, version text, fingerprint, cohort, update check, events, ping ad = rd = last day number iff ping, extra fields), build_intermediate (headers = content-type JSON, updater name, interactivity fg iff on-demand, app id of the FIRST entry; request object = protocol 3.0, updater, updater version, install source, ismachine true, ids, os, apps in entry order), "
        "From<Intermediate> for http::Request (POST to the uri, headers in order, body = serialisation of that object) and build (composition; metadata iff a CUP handler); &self: building neither consumes nor alters the builder. The builder-view contracts are the ones the state-machine group assumes of its RequestBuilder stand-in.",
   note=TRUST + "The JSON text itself (serde attribute semantics: renames, skip_serializing_if, flatten, Serialize_repr codes, GUID braces) is serde-derive output and serde_json: json_of_body is an uninterpreted function of the request object, so key names, omission of unset fields and numeric event codes are NOT decided here. The version text in the request is the four-part canonical form (Version's Display, proved in group ver under C20; to_string() is assumed to return what Display writes). "
        "std adapter semantics assumed for two outlined fragments (iter_mut().find, iter().cloned().map(From::from).collect()); http::request::Builder is a stand-in (post/header/body record method, uri, headers in call order, body). Cupv2RequestHandler::decorate_request may change only the URI (its parameter type `&mut impl CupRequest` offers set_uri as the only mutator).",
   technique="contract-based deductive verification (Verus) of mechanically extracted functions", design="4/C15"),
}

NA = {
 "C11": "Exactly-one reply under all interleavings and hang-freedom depend on futures mpsc/oneshot and scheduling; a dropped reply is invisible to a postcondition (DESIGN 4/C11).",
 "C13": "Quantifies over polling schedules and waker behaviour of Generator::poll_next (pin-projected, zero-capacity channel); neither Verus nor Kani models poll/wake (DESIGN 4/C13).",
 "C16": "The parser is serde-derive output plus serde_json; no contract-bearing function body in /repo decides totality or field fidelity (DESIGN 4/C16).",
}

def main():
    checks = []
    for pid in ids:
        if pid in CLAIMS:
            c = CLAIMS[pid]
            checks.append({
                "property_id": pid,
                "quick_cmd": f"./check {pid} --tier quick",
                "thorough_cmd": f"./check {pid} --tier thorough",
                "evidence_file": f"/verif/evidence/{pid}.json",
                "replay_cmd_template": f"./check {pid} --replay {{path}}",
                "engine": "vx+verus" + ("+kani" if c.get("kani") else ""),
                "level_claimed": {"category": c.get("category", "proof"), "text": c["text"], "design_ref": c["design"]},
                "level_note": c["note"],
                "technique": c["technique"],
            })
    na = []
    for pid in ids:
        if pid not in CLAIMS:
            na.append({"property_id": pid, "reason": NA.get(pid, "check not built yet (framework under construction; planned in DESIGN.md section 4)")})
    m = {
        "version": 1,
        "setup_cmd": "./setup.sh",
        "hooks": {"guard": "google_omaha_client_verif",
                  "enable": "(reserved, unused: contracts are spliced into text extracted from /repo on every run; no source hooks)",
                  "baseline_off_cmd": "cd /repo && cargo test --workspace --no-fail-fast --offline",
                  "source_commits": [], "add_only": True},
        "engines": [
            {"name": "vx+verus", "path": "/verif/check", "serves_properties": [c["property_id"] for c in checks],
             "kind_free_text": "syn-based extractor/splicer (tools/vx) + contracts (specs/*.vspec) + trusted prelude (prelude/*.rs) verified by Verus 0.2026.09.13 / Z3"},
        ],
        "checks": checks,
        "notes": "Exit codes of ./check: 0 held, 1 VIOLATION, 2 undecided (lost anchor / unsupported construct / resource limit; never an alarm). "
                 "Repairs of genuine defects found by the checks are 'fix:' commits in /repo, recorded in known_findings.json.",
        "not_applicable": na,
    }
    json.dump(m, open(os.path.join(V, "MANIFEST.json"), "w"), indent=1)
    print("claimed:", [c["property_id"] for c in checks])

if __name__ == "__main__":
    main()
