//! vx — mechanical extractor/splicer: pulls named items out of the *current* /repo sources,
//! applies the enumerated rewrite rules of DESIGN.md §3.2 (each application logged), splices
//! contract text at marker positions, and prints Verus-ready text formatted by rustfmt.
//!
//! stdin: job JSON; stdout: result JSON. Exit 0 always when a result JSON was written; the
//! per-unit `error` field carries lost-anchor / unsupported-construct conditions.

use proc_macro2::{TokenStream, TokenTree};
use quote::{quote, ToTokens};
use serde::{Deserialize, Serialize};
use std::collections::BTreeMap;
use std::io::{Read, Write};
use std::process::{Command, Stdio};
use syn::visit_mut::{self, VisitMut};
use syn::{parse_quote, Attribute, Block, Expr, ImplItem, Item, Stmt};

#[derive(Deserialize, Default, Clone)]
struct FnSpec {
    #[serde(default)]
    ret: Option<String>,
    #[serde(default)]
    spec: Option<String>,
    #[serde(default)]
    attrs: Vec<String>,
    #[serde(default)]
    loops: BTreeMap<String, String>,
    #[serde(default)]
    closures: BTreeMap<String, String>,
    /// optional body-hash anchors for spec'd closures: spec key -> hash of the closure body
    #[serde(default)]
    closure_hashes: BTreeMap<String, String>,
    #[serde(default)]
    hints: Vec<Hint>,
    #[serde(default)]
    tries: BTreeMap<String, String>,
    #[serde(default)]
    pins: Vec<Pin>,
    #[serde(default)]
    external_body: bool,
    /// keep `&self` -> `&mut self` (R10)
    #[serde(default)]
    self_mut: bool,
    /// R25: fragments moved verbatim into generated helper fns (verified, with their own contract)
    #[serde(default)]
    outlines: Vec<Outline>,
    /// for outlined helpers: an *assumed* fact about the value of the tail expression (std adapter
    /// semantics the verifier's library does not specify); emitted as `assume(..)` and inventoried
    #[serde(default)]
    tail_assume: Option<String>,
}

#[derive(Deserialize, Clone)]
struct Outline {
    name: String,
    header: String,
    original: String,
    call: String,
    /// place expressions of the origin that the helper receives under a parameter name
    /// (`self.app_entries => entries`): applied to the fragment's tokens before it becomes the helper body
    #[serde(default)]
    subst: Vec<(String, String)>,
}

/// token-text substitution with identifier boundaries (used by Outline::subst)
fn subst_norm(text: &str, from: &str, to: &str) -> String {
    let mut out = String::new();
    let mut rest = text;
    let is_id = |c: char| c.is_alphanumeric() || c == '_';
    while let Some(p) = rest.find(from) {
        let before_ok = rest[..p].chars().last().map_or(true, |c| !is_id(c) && c != '.');
        let after_ok = rest[p + from.len()..].chars().next().map_or(true, |c| !is_id(c));
        out.push_str(&rest[..p]);
        if before_ok && after_ok { out.push_str(to); } else { out.push_str(from); }
        rest = &rest[p + from.len()..];
    }
    out.push_str(rest);
    out
}

#[derive(Deserialize, Clone)]
struct Hint {
    /// "before" | "after" | "first" (first statement of the fn body) | "last"
    pos: String,
    #[serde(default)]
    anchor: String,
    #[serde(default)]
    nth: usize,
    text: String,
}

#[derive(Deserialize, Clone)]
struct Pin {
    original: String,
    replacement: String,
    #[serde(default)]
    stmt: bool,
}

#[derive(Deserialize, Clone)]
struct UnitReq {
    name: String,
    file: String,
    kind: String, // fn | method | impl | item
    #[serde(default)]
    path: Vec<String>,
    #[serde(default)]
    self_ty: Option<String>,
    #[serde(default, rename = "trait")]
    trait_: Option<String>,
    #[serde(default)]
    method: Option<String>,
    #[serde(default)]
    fns: BTreeMap<String, FnSpec>,
    #[serde(default)]
    derive_keep: Option<Vec<String>>,
    #[serde(default)]
    no_rewrites: bool,
    /// for kind=impl: only keep these methods (others dropped, logged)
    #[serde(default)]
    only_methods: Option<Vec<String>>,
    #[serde(default)]
    pre_attrs: Vec<String>,
    /// text substituted for the where-clause/generics: none
    #[serde(default)]
    drop_fields: Vec<String>,
    /// also emit a vacuity twin (`<name>__vxvac` with an extra `ensures false`)
    #[serde(default)]
    vac: bool,
    /// R24: emit the selected associated fn(s) as free functions (they use no impl generics)
    #[serde(default)]
    hoist: bool,
    /// R25 without the parent: emit only the outlined fragments of this fn
    #[serde(default)]
    fragments_only: bool,
    /// closure body hashes recorded when the contracts were written (None: no record, nothing is "new")
    #[serde(default)]
    known_closures: Option<Vec<String>>,
    /// emit the item verbatim (only doc comments dropped, visibility widened): used for Kani
    #[serde(default)]
    raw: bool,
}

#[derive(Deserialize)]
struct Job {
    repo: String,
    units: Vec<UnitReq>,
    #[serde(default)]
    renames: Vec<(String, String)>,
    #[serde(default)]
    macro_map: BTreeMap<String, String>,
    #[serde(default)]
    expr_map: Vec<(String, String)>,
    #[serde(default)]
    type_map: Vec<(String, String)>,
}

#[derive(Serialize, Default)]
struct UnitOut {
    name: String,
    text: String,
    src_file: String,
    src_line_start: usize,
    src_line_end: usize,
    rewrites: Vec<RewriteLog>,
    text_vac: String,
    n_loops: usize,
    n_closures: usize,
    n_tries: usize,
    closure_info: Vec<(String, usize, String, String)>,
    /// new closures (body not in the recorded shape) that received the automatic contract `result == body`
    auto_closures: usize,
    /// new closures that could not be given one (statement bodies): their result is unconstrained
    new_unannotated: usize,
    fmt_helpers: Vec<(String, String)>,
    error: Option<String>,
    identity_ok: Option<bool>,
}

#[derive(Serialize, Clone)]
struct RewriteLog {
    rule: String,
    line: usize,
    detail: String,
}

fn norm(ts: &TokenStream) -> String {
    let mut s = String::new();
    for t in ts.clone() {
        match t {
            TokenTree::Group(g) => {
                let (o, c) = match g.delimiter() {
                    proc_macro2::Delimiter::Parenthesis => ("(", ")"),
                    proc_macro2::Delimiter::Brace => ("{", "}"),
                    proc_macro2::Delimiter::Bracket => ("[", "]"),
                    proc_macro2::Delimiter::None => ("", ""),
                };
                s.push_str(o);
                s.push_str(&norm(&g.stream()));
                s.push_str(c);
            }
            TokenTree::Ident(i) => {
                if s.chars().last().map_or(false, |c| c.is_alphanumeric() || c == '_') {
                    s.push(' ');
                }
                s.push_str(&i.to_string());
            }
            TokenTree::Punct(p) => s.push(p.as_char()),
            TokenTree::Literal(l) => {
                if s.chars().last().map_or(false, |c| c.is_alphanumeric() || c == '_') {
                    s.push(' ');
                }
                s.push_str(&l.to_string());
            }
        }
    }
    s
}

/// normalized text with the internal numbering attributes removed (used for anchor matching)
fn norm_m(ts: &TokenStream) -> String {
    let s = norm(ts);
    let mut out = String::new();
    let mut rest = s.as_str();
    while let Some(p) = rest.find("#[vx_ord(") {
        out.push_str(&rest[..p]);
        let after = &rest[p..];
        match after.find(")]") {
            Some(q) => rest = &after[q + 2..],
            None => { rest = ""; }
        }
    }
    out.push_str(rest);
    out
}

fn norm_str(s: &str) -> Result<String, String> {
    let ts: TokenStream = s.parse().map_err(|e| format!("cannot tokenize `{}`: {}", s, e))?;
    Ok(norm(&ts))
}

fn rustfmt(src: &str) -> Result<String, String> {
    let mut child = Command::new("rustfmt")
        .args(["--edition", "2021", "--config", "max_width=110"])
        .stdin(Stdio::piped())
        .stdout(Stdio::piped())
        .stderr(Stdio::piped())
        .spawn()
        .map_err(|e| format!("rustfmt spawn: {}", e))?;
    child.stdin.take().unwrap().write_all(src.as_bytes()).map_err(|e| e.to_string())?;
    let out = child.wait_with_output().map_err(|e| e.to_string())?;
    if !out.status.success() {
        return Err(format!("rustfmt failed: {}\n--- input ---\n{}", String::from_utf8_lossy(&out.stderr), src));
    }
    Ok(String::from_utf8_lossy(&out.stdout).to_string())
}

const TRACING: [&str; 5] = ["info", "warn", "error", "debug", "trace"];

fn is_doc_or_dropped_attr(a: &Attribute) -> bool {
    let p = a.path();
    let name = p.segments.last().map(|s| s.ident.to_string()).unwrap_or_default();
    matches!(
        name.as_str(),
        "doc" | "allow" | "must_use" | "serde" | "builder" | "error" | "from" | "inline" | "source" | "cfg_attr" | "non_exhaustive" | "pin" | "pin_project" | "repr" | "deprecated" | "warn"
    )
}

fn vx_ord(attrs: &[Attribute]) -> Option<usize> {
    for a in attrs {
        if a.path().is_ident("vx_ord") {
            if let Ok(l) = a.parse_args::<syn::LitInt>() {
                return l.base10_parse().ok();
            }
        }
    }
    None
}

fn strip_vx_ord(attrs: &mut Vec<Attribute>) {
    attrs.retain(|a| !a.path().is_ident("vx_ord") && !a.path().is_ident("vx_new"));
}

/// Pass 1: number loops, closures and `?` in source pre-order.
struct Numberer {
    loops: usize,
    closures: usize,
    tries: usize,
    closure_hashes: Vec<(usize, String, String)>,
    /// body hashes of the closures this unit had when its contracts were written (specs/shapes.json);
    /// a closure with another body is marked #[vx_new]
    known: Option<Vec<String>>,
}
impl VisitMut for Numberer {
    fn visit_expr_mut(&mut self, e: &mut Expr) {
        match e {
            Expr::While(w) => {
                let k = self.loops;
                self.loops += 1;
                w.attrs.push(parse_quote!(#[vx_ord(#k)]));
            }
            Expr::Loop(w) => {
                let k = self.loops;
                self.loops += 1;
                w.attrs.push(parse_quote!(#[vx_ord(#k)]));
            }
            Expr::ForLoop(w) => {
                let k = self.loops;
                self.loops += 1;
                w.attrs.push(parse_quote!(#[vx_ord(#k)]));
            }
            Expr::Closure(c) => {
                let k = self.closures;
                self.closures += 1;
                let params: Vec<String> = c.inputs.iter().map(|p| pat_name(p)).collect();
                let h = lit_hash(&norm(&c.body.to_token_stream()));
                if let Some(kn) = &self.known {
                    if !kn.contains(&h) {
                        c.attrs.push(parse_quote!(#[vx_new]));
                    }
                }
                self.closure_hashes.push((k, h, params.join(",")));
                c.attrs.push(parse_quote!(#[vx_ord(#k)]));
            }
            Expr::Try(t) => {
                let k = self.tries;
                self.tries += 1;
                t.attrs.push(parse_quote!(#[vx_ord(#k)]));
            }
            _ => {}
        }
        visit_mut::visit_expr_mut(self, e);
    }
    fn visit_item_mut(&mut self, _i: &mut Item) { /* do not descend into nested items */ }
}

struct Rewriter<'a> {
    type_map: &'a [(String, String)],
    expr_map: &'a [(String, String)],
    spec: &'a FnSpec,
    renames: &'a [(Vec<String>, Vec<String>)],
    macro_map: &'a BTreeMap<String, String>,
    log: Vec<RewriteLog>,
    errors: Vec<String>,
    hint_seen: Vec<usize>,
    hint_placed: Vec<bool>,
    pin_used: Vec<bool>,
    pins_norm: Vec<String>,
    fn_marker: String,
    uid: String,
    brk_counter: usize,
    synth: Vec<(String, String)>,
    intoiter_params: Vec<String>,
    fmt_helpers: Vec<(String, String)>,
    pinned: Vec<String>,
    /// R32: `let vx_pred_k = <closure>;` statements to be placed before the statement being visited
    pending_lets: Vec<Stmt>,
    pred_counter: usize,
}

/// R36 helper: body `{ async move { B }.boxed_local() }` (or `.boxed()`) with return type `X<'a, T>` -> (B, T)
fn async_block_body(b: &Block, sig: &syn::Signature) -> Option<(Block, syn::Type)> {
    if b.stmts.len() != 1 {
        return None;
    }
    let e = match &b.stmts[0] { Stmt::Expr(e, None) => e, _ => return None };
    let mc = match e { Expr::MethodCall(mc) if (mc.method == "boxed_local" || mc.method == "boxed") && mc.args.is_empty() => mc, _ => return None };
    let ab = match &*mc.receiver { Expr::Async(a) => a, _ => return None };
    let out_ty = match &sig.output {
        syn::ReturnType::Type(_, t) => match &**t {
            syn::Type::Path(tp) => {
                let last = tp.path.segments.last()?;
                match &last.arguments {
                    syn::PathArguments::AngleBracketed(ab) => ab.args.iter().filter_map(|a| if let syn::GenericArgument::Type(t) = a { Some(t.clone()) } else { None }).last()?,
                    _ => return None,
                }
            }
            _ => return None,
        },
        _ => return None,
    };
    Some((ab.block.clone(), out_ty))
}

/// R35 helper: rewrites the first top-level `if c { ..; continue; }` (no else, unlabeled continue last)
/// of a block into `if c { .. } else { <rest of the block> }`, recursively in the new else block.
fn continue_to_else(b: &mut Block) -> usize {
    let mut idx: Option<usize> = None;
    for (i, st) in b.stmts.iter().enumerate() {
        if let Stmt::Expr(Expr::If(ei), _) = st {
            if ei.else_branch.is_none() {
                if let Some(Stmt::Expr(Expr::Continue(c), _)) = ei.then_branch.stmts.last() {
                    if c.label.is_none() {
                        idx = Some(i);
                        break;
                    }
                }
            }
        }
    }
    let i = match idx { Some(i) => i, None => return 0 };
    let rest: Vec<Stmt> = b.stmts.split_off(i + 1);
    let mut else_block: Block = parse_quote!({ #(#rest)* });
    let n = continue_to_else(&mut else_block);
    if let Some(Stmt::Expr(Expr::If(ei), semi)) = b.stmts.last_mut() {
        ei.then_branch.stmts.pop();
        ei.else_branch = Some((Default::default(), Box::new(Expr::Block(syn::ExprBlock { attrs: vec![], label: None, block: else_block }))));
        *semi = None;
    }
    n + 1
}

fn line_of<T: syn::spanned::Spanned>(t: &T) -> usize {
    t.span().start().line
}

fn lit_hash(s: &str) -> String {
    // FNV-1a 64, hex, first 8 digits: names the stand-in for one format literal
    let mut h: u64 = 0xcbf29ce484222325;
    for b in s.as_bytes() {
        h ^= *b as u64;
        h = h.wrapping_mul(0x100000001b3);
    }
    format!("{:016x}", h)[..8].to_string()
}

impl<'a> Rewriter<'a> {
    fn logr(&mut self, rule: &str, line: usize, detail: impl Into<String>) {
        self.log.push(RewriteLog { rule: rule.into(), line, detail: detail.into() });
    }

    fn macro_name(m: &syn::Macro) -> String {
        m.path.segments.last().map(|s| s.ident.to_string()).unwrap_or_default()
    }

    /// Rewrite a macro invocation in expression position. None = leave.
    fn rewrite_macro_expr(&mut self, m: &syn::Macro, line: usize) -> Option<Expr> {
        let name = Self::macro_name(m);
        if TRACING.contains(&name.as_str()) && !self.macro_map.contains_key(&name) {
            self.logr("R2", line, format!("tracing macro {}! -> ()", name));
            return Some(parse_quote!(()));
        }
        match name.as_str() {
            "write" | "writeln" => {
                // R37: `write!(f, lit, args..)` -> `f.vx_write_str(&<R3 helper for format!(lit, args..)>)`:
                // the formatter stand-in records the text written (writeln! appends a newline)
                let toks: Vec<proc_macro2::TokenTree> = m.tokens.clone().into_iter().collect();
                let pos = toks.iter().position(|t| matches!(t, proc_macro2::TokenTree::Punct(p) if p.as_char() == ','))?;
                let fexpr: Expr = syn::parse2(toks[..pos].iter().cloned().collect()).ok()?;
                let rest: TokenStream = toks[pos + 1..].iter().cloned().collect();
                let fm: syn::Macro = syn::parse2(quote!(format!(#rest))).ok()?;
                let helper = self.rewrite_macro_expr(&fm, line)?;
                self.logr("R37", line, format!("{}!(f, ..) -> f.vx_write_str(&<formatted text>)", name));
                if name == "writeln" {
                    return Some(parse_quote!(#fexpr.vx_writeln_str(&#helper)));
                }
                return Some(parse_quote!(#fexpr.vx_write_str(&#helper)));
            }
            "vec" => {
                // R31: `vec![a, b, c]` -> a block pushing a, b, c onto a new Vec (same value, same evaluation order)
                let args: syn::punctuated::Punctuated<Expr, syn::Token![,]> =
                    match m.parse_body_with(syn::punctuated::Punctuated::parse_terminated) {
                        Ok(a) => a,
                        Err(e) => {
                            self.errors.push(format!("unsupported-construct: vec! form at line {}: {}", line, e));
                            return None;
                        }
                    };
                let mut elems: Vec<Expr> = args.into_iter().collect();
                if elems.is_empty() {
                    return None; // `vec![]` is accepted as it stands
                }
                for a in elems.iter_mut() {
                    self.visit_expr_mut(a);
                }
                self.logr("R31", line, format!("vec![..] with {} element(s) -> Vec::new() + push in order", elems.len()));
                return Some(parse_quote!({ let mut vx_v = Vec::new(); #(vx_v.push(#elems);)* vx_v }));
            }
            "format" => {
                let args: syn::punctuated::Punctuated<Expr, syn::Token![,]> =
                    match m.parse_body_with(syn::punctuated::Punctuated::parse_terminated) {
                        Ok(a) => a,
                        Err(e) => {
                            self.errors.push(format!("unsupported-construct: format! args at line {}: {}", line, e));
                            return None;
                        }
                    };
                let mut it = args.into_iter();
                let lit = match it.next() {
                    Some(Expr::Lit(syn::ExprLit { lit: syn::Lit::Str(s), .. })) => s.value(),
                    _ => {
                        self.errors.push(format!("unsupported-construct: format! without literal at line {}", line));
                        return None;
                    }
                };
                let rest: Vec<Expr> = it.collect();
                // R3: the literal is parsed into pieces; each `{}` / `{name}` placeholder becomes the
                // Display text of its argument, so the helper's contract is generated from the literal itself
                let mut pieces: Vec<(String, Option<(usize, bool)>)> = vec![]; // (literal text before, placeholder arg index + debug?)
                let mut call_args: Vec<Expr> = rest.clone();
                let mut cur = String::new();
                let chars: Vec<char> = lit.chars().collect();
                let mut i = 0usize;
                let mut next_pos = 0usize;
                let mut bad = false;
                while i < chars.len() {
                    let c = chars[i];
                    if c == '{' && i + 1 < chars.len() && chars[i + 1] == '{' { cur.push('{'); i += 2; continue; }
                    if c == '}' && i + 1 < chars.len() && chars[i + 1] == '}' { cur.push('}'); i += 2; continue; }
                    if c == '{' {
                        let mut j = i + 1;
                        let mut inner = String::new();
                        while j < chars.len() && chars[j] != '}' { inner.push(chars[j]); j += 1; }
                        let (name, fmt) = match inner.find(':') { Some(p) => (inner[..p].to_string(), inner[p + 1..].to_string()), None => (inner.clone(), String::new()) };
                        let debug = !fmt.is_empty();
                        let idx = if name.is_empty() {
                            let k = next_pos; next_pos += 1; k
                        } else if name.chars().all(|ch| ch.is_ascii_digit()) {
                            bad = true; 0
                        } else {
                            let id = syn::Ident::new(&name, proc_macro2::Span::call_site());
                            call_args.push(parse_quote!(#id));
                            call_args.len() - 1
                        };
                        pieces.push((std::mem::take(&mut cur), Some((idx, debug))));
                        i = j + 1;
                        continue;
                    }
                    cur.push(c);
                    i += 1;
                }
                pieces.push((cur, None));
                if bad || next_pos > rest.len() {
                    self.errors.push(format!("unsupported-construct: format! literal {:?} at line {}", lit, line));
                    return None;
                }
                let hname = format!("vx_fmt_{}", lit_hash(&lit));
                let fname = syn::Ident::new(&hname, proc_macro2::Span::call_site());
                // helper text
                let n = call_args.len();
                let tps: Vec<String> = (0..n).map(|k| format!("A{}: VxDisplay + ?Sized", k)).collect();
                let ps: Vec<String> = (0..n).map(|k| format!("a{}: &A{}", k, k)).collect();
                let mut spec = String::from("Seq::<char>::empty()");
                for (txt, ph) in &pieces {
                    if !txt.is_empty() {
                        spec.push_str(&format!(" + {:?}@", txt));
                    }
                    if let Some((idx, debug)) = ph {
                        if *debug { spec.push_str(&format!(" + a{}.vx_debug()", idx)); } else { spec.push_str(&format!(" + a{}.vx_display()", idx)); }
                    }
                }
                let helper = format!(
                    "/// format!({:?}, ..): contract generated from the literal (core::fmt semantics assumed)\n#[verifier::external_body]\npub fn {}<{}>({}) -> (r: String)\n    ensures r@ == {},\n{{ unimplemented!() }}",
                    lit, hname, tps.join(", "), ps.join(", "), spec);
                self.fmt_helpers.push((hname.clone(), helper));
                self.logr("R3", line, format!("format!({:?}, ..{} args) -> {}", lit, n, fname));
                // the arguments are real code: rewrite them too
                let mut call_args = call_args;
                for a in call_args.iter_mut() {
                    self.visit_expr_mut(a);
                }
                Some(parse_quote!(#fname(#(&#call_args),*)))
            }
            "select" => {
                // R8: select! { p1 = f1 => b1, p2 = f2 => b2, .. } -> match vx_selectN(..).await { A(p1) => b1, .. }
                // futures named by a plain identifier are polled through `&mut` (they stay usable, as in select!)
                let toks: Vec<TokenTree> = m.tokens.clone().into_iter().collect();
                let mut arms: Vec<(TokenStream, TokenStream, TokenStream)> = vec![];
                let mut i = 0usize;
                let n = toks.len();
                while i < n {
                    // pattern: up to a lone `=`
                    let mut pat = TokenStream::new();
                    while i < n {
                        if let TokenTree::Punct(p) = &toks[i] {
                            if p.as_char() == '=' && p.spacing() == proc_macro2::Spacing::Alone {
                                break;
                            }
                        }
                        pat.extend(std::iter::once(toks[i].clone()));
                        i += 1;
                    }
                    if i >= n { break; }
                    i += 1; // '='
                    // future expr: up to `=>`
                    let mut fut = TokenStream::new();
                    while i + 1 < n {
                        if let (TokenTree::Punct(p), TokenTree::Punct(q)) = (&toks[i], &toks[i + 1]) {
                            if p.as_char() == '=' && p.spacing() == proc_macro2::Spacing::Joint && q.as_char() == '>' {
                                break;
                            }
                        }
                        fut.extend(std::iter::once(toks[i].clone()));
                        i += 1;
                    }
                    i += 2; // '=>'
                    // body: a brace group (optional comma) or tokens up to a top-level comma
                    let mut body = TokenStream::new();
                    if i < n {
                        if let TokenTree::Group(g) = &toks[i] {
                            if g.delimiter() == proc_macro2::Delimiter::Brace {
                                body.extend(std::iter::once(toks[i].clone()));
                                i += 1;
                                if i < n { if let TokenTree::Punct(p) = &toks[i] { if p.as_char() == ',' { i += 1; } } }
                                arms.push((pat, fut, body));
                                continue;
                            }
                        }
                    }
                    while i < n {
                        if let TokenTree::Punct(p) = &toks[i] { if p.as_char() == ',' { i += 1; break; } }
                        body.extend(std::iter::once(toks[i].clone()));
                        i += 1;
                    }
                    arms.push((pat, fut, body));
                }
                if arms.len() < 2 || arms.len() > 3 {
                    self.errors.push(format!("unsupported-construct: select! with {} arms at line {}", arms.len(), line));
                    return None;
                }
                let names = ["A", "B", "C"];
                let en = syn::Ident::new(&format!("VxSel{}", arms.len()), proc_macro2::Span::call_site());
                let fnn = syn::Ident::new(&format!("vx_select{}", arms.len()), proc_macro2::Span::call_site());
                let mut args: Vec<Expr> = vec![];
                let mut match_arms: Vec<TokenStream> = vec![];
                for (k, (pat, fut, body)) in arms.iter().enumerate() {
                    let fe: Expr = match syn::parse2(fut.clone()) {
                        Ok(e) => e,
                        Err(e) => { self.errors.push(format!("unsupported-construct: select! future at line {}: {}", line, e)); return None; }
                    };
                    let is_ident = matches!(&fe, Expr::Path(p) if p.path.get_ident().is_some());
                    args.push(if is_ident { parse_quote!(vx_by_ref(&mut #fe)) } else { fe });
                    let v = syn::Ident::new(names[k], proc_macro2::Span::call_site());
                    match_arms.push(quote!(#en::#v(#pat) => #body));
                }
                let src = quote!(match #fnn(#(#args),*).await { #(#match_arms),* });
                match syn::parse2::<Expr>(src) {
                    Ok(mut e) => {
                        self.logr("R8", line, format!("select! with {} arms -> match vx_select{}(..).await", arms.len(), arms.len()));
                        // the arm bodies are real code: rewrite them too
                        self.visit_expr_mut(&mut e);
                        Some(e)
                    }
                    Err(e) => { self.errors.push(format!("unsupported-construct: select! rewrite at line {}: {}", line, e)); None }
                }
            }
            "anyhow" => {
                self.logr("R4", line, "anyhow!(..) -> vx_anyhow()");
                Some(parse_quote!(vx_anyhow()))
            }
            "assert" => {
                let args: syn::punctuated::Punctuated<Expr, syn::Token![,]> =
                    m.parse_body_with(syn::punctuated::Punctuated::parse_terminated).ok()?;
                let c = args.into_iter().next()?;
                self.logr("R14", line, "assert!(c) -> vx_assert(c) [requires c]");
                Some(parse_quote!(vx_assert(#c)))
            }
            "assert_eq" => {
                let args: syn::punctuated::Punctuated<Expr, syn::Token![,]> =
                    m.parse_body_with(syn::punctuated::Punctuated::parse_terminated).ok()?;
                let mut it = args.into_iter();
                let a = it.next()?;
                let b = it.next()?;
                self.logr("R14", line, "assert_eq!(a,b) -> vx_assert(a == b) [requires]");
                Some(parse_quote!(vx_assert(#a == #b)))
            }
            "panic" | "unreachable" | "unimplemented" | "todo" => {
                self.logr("R14", line, format!("{}!(..) -> vx_panic() [requires false]", name));
                Some(parse_quote!(vx_panic()))
            }
            _ => {
                if let Some(target) = self.macro_map.get(&name) {
                    if target == "drop" {
                        self.logr("R9", line, format!("{}!(..) dropped", name));
                        return Some(parse_quote!(()));
                    }
                    // generic: name!(args) -> target(args)
                    let args: syn::punctuated::Punctuated<Expr, syn::Token![,]> =
                        match m.parse_body_with(syn::punctuated::Punctuated::parse_terminated) {
                            Ok(a) => a,
                            Err(e) => {
                                self.errors.push(format!("unsupported-construct: {}! args at line {}: {}", name, line, e));
                                return None;
                            }
                        };
                    let mut args: Vec<Expr> = args.into_iter().collect();
                    if target.contains("$args") {
                        // template form, e.g. `vx_join2($args).await`
                        for a in args.iter_mut() {
                            self.visit_expr_mut(a);
                        }
                        let at = args.iter().map(|a| a.to_token_stream().to_string()).collect::<Vec<_>>().join(", ");
                        let t = target.replace("$args", &at);
                        self.logr("R15", line, format!("{}!(..) -> {}", name, target));
                        return syn::parse_str::<Expr>(&t).ok();
                    }
                    let f: Expr = syn::parse_str(target).ok()?;
                    self.logr("R15", line, format!("{}!(..) -> {}(..)", name, target));
                    return Some(parse_quote!(#f(#(#args),*)));
                }
                None
            }
        }
    }
}

fn path_segments(p: &syn::Path) -> Vec<String> {
    p.segments.iter().map(|s| s.ident.to_string()).collect()
}

impl<'a> VisitMut for Rewriter<'a> {
    fn visit_item_mut(&mut self, _i: &mut Item) {}

    fn visit_attributes_mut(&mut self, attrs: &mut Vec<Attribute>) {
        attrs.retain(|a| !is_doc_or_dropped_attr(a));
    }

    fn visit_path_mut(&mut self, p: &mut syn::Path) {
        visit_mut::visit_path_mut(self, p);
        let segs = path_segments(p);
        for (from, to) in self.renames {
            if segs.len() >= from.len() && segs[..from.len()] == from[..] && !from.is_empty() {
                // exact-prefix rename; keeps generic args of the remaining segments
                let rest: Vec<syn::PathSegment> = p.segments.iter().skip(from.len()).cloned().collect();
                if rest.is_empty() && to.is_empty() {
                    continue;
                }
                let mut newsegs: syn::punctuated::Punctuated<syn::PathSegment, syn::Token![::]> = Default::default();
                for t in to {
                    newsegs.push(syn::PathSegment::from(syn::Ident::new(t, proc_macro2::Span::call_site())));
                }
                // if the rename consumed the final segment, carry its generic args over
                if rest.is_empty() {
                    let last_args = p.segments.last().unwrap().arguments.clone();
                    if let Some(l) = newsegs.last_mut() {
                        l.arguments = last_args;
                    }
                }
                for r in rest {
                    newsegs.push(r);
                }
                let line = line_of(p);
                p.leading_colon = None;
                p.segments = newsegs;
                self.logr("R11", line, format!("path {} -> {}", segs.join("::"), path_segments(p).join("::")));
                break;
            }
        }
    }

    fn visit_type_mut(&mut self, t: &mut syn::Type) {
        let nt = norm(&t.to_token_stream());
        for (from, to) in self.type_map {
            if &nt == from {
                if let Ok(r) = syn::parse_str::<syn::Type>(to) {
                    let line = line_of(t);
                    *t = r;
                    self.logr("R11", line, format!("type {} -> {}", from, to));
                    return;
                }
            }
        }
        visit_mut::visit_type_mut(self, t);
    }

    fn visit_block_mut(&mut self, b: &mut Block) {
        // multi-statement pins: a consecutive run of statements whose concatenated text equals the original
        for (pi, pin) in self.spec.pins.iter().enumerate() {
            if !pin.stmt || self.pin_used[pi] {
                continue;
            }
            let target = &self.pins_norm[pi];
            let n = b.stmts.len();
            let norms: Vec<String> = b.stmts.iter().map(|s| norm_m(&s.to_token_stream())).collect();
            let mut found: Option<(usize, usize)> = None;
            'outer: for i in 0..n {
                let mut acc = String::new();
                for j in i..n {
                    acc.push_str(&norms[j]);
                    if acc.len() > target.len() {
                        break;
                    }
                    if &acc == target && j > i {
                        found = Some((i, j));
                        break 'outer;
                    }
                }
            }
            if let Some((i, j)) = found {
                match syn::parse_str::<Block>(&format!("{{ {} }}", pin.replacement)) {
                    Ok(rb) => {
                        let line = line_of(&b.stmts[i]);
                        let repl = rb.stmts;
                        b.stmts.splice(i..=j, repl);
                        self.pin_used[pi] = true;
                        self.log.push(RewriteLog { rule: "R13".into(), line, detail: format!("pinned statement range ({} statements) -> {}", j - i + 1, pin.replacement.chars().take(80).collect::<String>()) });
                    }
                    Err(e) => self.errors.push(format!("pin replacement unparsable: {}", e)),
                }
            }
        }
        // statement-level pins (match against normalized statement text)
        for (pi, pin) in self.spec.pins.iter().enumerate() {
            if !pin.stmt || self.pin_used[pi] {
                continue;
            }
            for s in b.stmts.iter_mut() {
                if norm_m(&s.to_token_stream()) == self.pins_norm[pi] {
                    let line = line_of(s);
                    match syn::parse_str::<Stmt>(&pin.replacement)
                        .or_else(|_| syn::parse_str::<Expr>(&pin.replacement).map(|e| Stmt::Expr(e, None)))
                    {
                        Ok(r) => {
                            *s = r;
                            self.pin_used[pi] = true;
                            self.log.push(RewriteLog { rule: "R13".into(), line, detail: format!("pinned statement -> {}", pin.replacement) });
                        }
                        Err(e) => self.errors.push(format!("pin replacement unparsable: {}", e)),
                    }
                }
            }
        }
        // R9: `pin_mut!(x)` -> removed; the binding becomes `let mut x` so that `x.set(v)` can be `x = v`
        {
            let mut pinned_here: Vec<String> = vec![];
            for st in b.stmts.iter() {
                if let Stmt::Macro(sm) = st {
                    if Rewriter::macro_name(&sm.mac) == "pin_mut" {
                        if let Ok(id) = syn::parse2::<syn::Ident>(sm.mac.tokens.clone()) {
                            pinned_here.push(id.to_string());
                        }
                    }
                }
            }
            for name in &pinned_here {
                for st in b.stmts.iter_mut() {
                    if let Stmt::Local(l) = st {
                        if let syn::Pat::Ident(pi) = &mut l.pat {
                            if pi.ident == name && pi.mutability.is_none() {
                                pi.mutability = Some(Default::default());
                            }
                        }
                    }
                }
                self.pinned.push(name.clone());
            }
        }
        // recurse first so that hints bind to the innermost matching statement
        let outer_pending = std::mem::take(&mut self.pending_lets);
        let mut hoisted: Vec<Vec<Stmt>> = vec![];
        for st in b.stmts.iter_mut() {
            self.visit_stmt_mut(st);
            hoisted.push(std::mem::take(&mut self.pending_lets));
        }
        self.pending_lets = outer_pending;
        let mut hoisted = hoisted.into_iter();
        // R2: drop tracing statements
        let mut out: Vec<Stmt> = Vec::new();
        let stmts = std::mem::take(&mut b.stmts);
        for s in stmts {
            out.extend(hoisted.next().unwrap_or_default());
            if let Stmt::Item(Item::Use(_)) = &s {
                let l = line_of(&s);
                self.logr("R0", l, "`use` item inside a body dropped (names resolve to the prelude)");
                continue;
            }
            if let Stmt::Macro(sm) = &s {
                let name = Rewriter::macro_name(&sm.mac);
                if TRACING.contains(&name.as_str()) && !self.macro_map.contains_key(&name) {
                    let l = line_of(&s);
                    self.logr("R2", l, format!("tracing statement {}!(..) removed", name));
                    continue;
                }
                if self.macro_map.get(&name).map(|t| t == "drop").unwrap_or(false) {
                    let l = line_of(&s);
                    self.logr("R9", l, format!("{}!(..) statement removed", name));
                    continue;
                }
                if let Some(e) = self.rewrite_macro_expr(&sm.mac, line_of(&s)) {
                    out.push(Stmt::Expr(e, sm.semi_token));
                    continue;
                }
            }
            // hints
            let ns = norm_m(&s.to_token_stream());
            let mut before: Vec<Stmt> = vec![];
            let mut after: Vec<Stmt> = vec![];
            for (hi, h) in self.spec.hints.iter().enumerate() {
                if self.hint_placed[hi] || (h.pos != "before" && h.pos != "after") {
                    continue;
                }
                let an = match norm_str(&h.anchor) {
                    Ok(a) => a,
                    Err(e) => {
                        self.errors.push(e);
                        continue;
                    }
                };
                if ns.contains(&an) {
                    if self.hint_seen[hi] == h.nth {
                        let id = syn::Ident::new(&format!("__vxhint_{}_{}", self.uid, hi), proc_macro2::Span::call_site());
                        let st: Stmt = parse_quote!(#id!{};);
                        if h.pos == "before" {
                            before.push(st);
                        } else {
                            after.push(st);
                        }
                        self.hint_placed[hi] = true;
                    }
                    self.hint_seen[hi] += 1;
                }
            }
            out.extend(before);
            out.push(s);
            out.extend(after);
        }
        b.stmts = out;
    }

    fn visit_expr_mut(&mut self, e: &mut Expr) {
        // expression pins (R13), matched before any inner rewriting
        let ne = norm_m(&e.to_token_stream());
        for (pi, pin) in self.spec.pins.iter().enumerate() {
            if pin.stmt {
                continue;
            }
            if ne == self.pins_norm[pi] {
                match syn::parse_str::<Expr>(&pin.replacement) {
                    Ok(r) => {
                        let line = line_of(e);
                        *e = r;
                        self.pin_used[pi] = true;
                        self.logr("R13", line, format!("pinned fragment -> {}", pin.replacement));
                        return;
                    }
                    Err(er) => {
                        self.errors.push(format!("pin replacement unparsable: {}", er));
                    }
                }
            }
        }
        for (from, to) in self.expr_map {
            if &ne == from {
                if let Ok(r) = syn::parse_str::<Expr>(to) {
                    let line = line_of(e);
                    *e = r;
                    self.logr("R6", line, format!("expression {} -> {}", from, to));
                    return;
                }
            }
        }
        // R7: `loop { .. break v; .. }` used as a value is handled at the `let` level in visit_local_mut
        visit_mut::visit_expr_mut(self, e);
        let line = line_of(e);
        match e {
            Expr::ForLoop(fl) => {
                // R26: `for x in <generic IntoIterator parameter>` iterates over the collected items
                let mut hit: Option<String> = None;
                if let Expr::Path(p) = &*fl.expr {
                    if let Some(id) = p.path.get_ident() {
                        if self.intoiter_params.contains(&id.to_string()) {
                            hit = Some(id.to_string());
                        }
                    }
                }
                if let Some(id) = hit {
                    let inner = fl.expr.clone();
                    fl.expr = Box::new(parse_quote!(vx_collect_refs(#inner)));
                    self.logr("R26", line, format!("for-loop over generic IntoIterator parameter `{}` -> vx_collect_refs({})", id, id));
                }
                // R35: `if c { ..; continue; } rest` at the top level of a for body -> `if c { .. } else { rest }`
                // (the verifier's for-loops do not accept `continue`)
                let n = continue_to_else(&mut fl.body);
                if n > 0 {
                    self.logr("R35", line, format!("{} `if .. {{ ..; continue; }} rest` -> if/else in a for body", n));
                }
            }
            Expr::Macro(em) => {
                let m = em.mac.clone();
                if let Some(r) = self.rewrite_macro_expr(&m, line) {
                    *e = r;
                }
            }
            Expr::Try(t) => {
                if let Some(k) = vx_ord(&t.attrs) {
                    if let Some(kind) = self.spec.tries.get(&k.to_string()).or_else(|| self.spec.tries.get("all")) {
                        let inner = &t.expr;
                        let r: Expr = if kind == "option" {
                            parse_quote!(match #inner { Some(v) => v, None => return None })
                        } else if kind == "same" {
                            parse_quote!(match #inner { Ok(v) => v, Err(e) => return Err(e) })
                        } else {
                            parse_quote!(match #inner { Ok(v) => v, Err(e) => return Err(From::from(e)) })
                        };
                        self.logr("R18", line, format!("`?` #{} -> explicit match ({})", k, kind));
                        *e = r;
                        return;
                    }
                }
                if let Expr::Try(t) = e {
                    strip_vx_ord(&mut t.attrs);
                }
            }
            Expr::Closure(c) => {
                // R27: destructuring closure parameters -> plain parameter + `let` (language definition)
                let mut lets: Vec<Stmt> = vec![];
                for (pi, p) in c.inputs.iter_mut().enumerate() {
                    let inner_is_ident = match p {
                        syn::Pat::Ident(_) => true,
                        syn::Pat::Type(t) => matches!(&*t.pat, syn::Pat::Ident(_)),
                        _ => false,
                    };
                    if let syn::Pat::Wild(_) = p {
                        // `_` closure parameters are not accepted by the verifier: give them a name
                        let v = syn::Ident::new(&format!("vx_p{}", pi), proc_macro2::Span::call_site());
                        *p = parse_quote!(#v);
                        continue;
                    }
                    if !inner_is_ident {
                        let v = syn::Ident::new(&format!("vx_p{}", pi), proc_macro2::Span::call_site());
                        let pat = p.clone();
                        lets.push(parse_quote!(let #pat = #v;));
                        *p = parse_quote!(#v);
                    }
                }
                if !lets.is_empty() {
                    let body = &c.body;
                    let nb: Expr = parse_quote!({ #(#lets)* #body });
                    c.body = Box::new(nb);
                    self.logr("R27", line, "destructuring closure parameter -> plain parameter + let");
                }
            }
            Expr::MethodCall(mc) if mc.method == "set" && mc.args.len() == 1
                && matches!(&*mc.receiver, Expr::Path(p) if p.path.get_ident().map_or(false, |i| self.pinned.contains(&i.to_string()))) =>
            {
                let recv = mc.receiver.clone();
                let v = mc.args.first().unwrap().clone();
                self.logr("R9", line, "Pin::set on a pin_mut! binding -> assignment");
                *e = parse_quote!(#recv = #v);
            }
            Expr::MethodCall(mc) if mc.method == "find" && mc.args.len() == 1
                && matches!(&*mc.receiver, Expr::MethodCall(im) if im.method == "iter_mut" && im.args.is_empty())
                && self.expr_map.iter().any(|(f, _)| f == "__adapter_iter_mut_find") =>
            {
                // R32: `X.iter_mut().find(pred)` -> the stand-in whose contract is stated over the
                // predicate's own contract (enabled per group by `@@exprmap __adapter_iter_mut_find => <fn>`)
                let to = self.expr_map.iter().find(|(f, _)| f == "__adapter_iter_mut_find").map(|(_, t)| t.clone()).unwrap();
                let f = syn::Ident::new(&to, proc_macro2::Span::call_site());
                let x = match &*mc.receiver { Expr::MethodCall(im) => im.receiver.clone(), _ => unreachable!() };
                let c = mc.args.first().unwrap().clone();
                let pn = syn::Ident::new(&format!("vx_pred{}", self.pred_counter), proc_macro2::Span::call_site());
                self.pred_counter += 1;
                self.logr("R32", line, format!("`.iter_mut().find(pred)` -> let {} = pred; {}(&mut .., {}) (predicate named so that proofs can refer to it)", pn, to, pn));
                self.pending_lets.push(parse_quote!(let #pn = #c;));
                *e = parse_quote!(#f(&mut #x, #pn));
            }
            Expr::MethodCall(mc) if mc.method == "all" && mc.args.len() == 1
                && matches!(&*mc.receiver, Expr::MethodCall(im) if im.method == "iter" && im.args.is_empty())
                && self.expr_map.iter().any(|(f, _)| f == "__adapter_iter_all") =>
            {
                // R32 (all): `X.iter().all(pred)` -> stand-in with a contract over the predicate's contract
                let to = self.expr_map.iter().find(|(f, _)| f == "__adapter_iter_all").map(|(_, t)| t.clone()).unwrap();
                let f = syn::Ident::new(&to, proc_macro2::Span::call_site());
                let x = match &*mc.receiver { Expr::MethodCall(im) => im.receiver.clone(), _ => unreachable!() };
                let c = mc.args.first().unwrap().clone();
                self.logr("R32", line, format!("`.iter().all(pred)` -> {}(&.., pred)", to));
                *e = parse_quote!(#f(&#x, #c));
            }
            Expr::MethodCall(mc) if mc.method == "collect" && mc.args.is_empty()
                && matches!(&*mc.receiver, Expr::MethodCall(fm) if fm.method == "filter" && fm.args.len() == 1
                    && matches!(&*fm.receiver, Expr::MethodCall(im) if im.method == "iter" && im.args.is_empty()))
                && self.expr_map.iter().any(|(f, _)| f == "__adapter_iter_filter_collect") =>
            {
                // R32 (filter): `X.iter().filter(pred).collect()` -> stand-in with a contract over pred's own contract
                let to = self.expr_map.iter().find(|(f, _)| f == "__adapter_iter_filter_collect").map(|(_, t)| t.clone()).unwrap();
                let f = syn::Ident::new(&to, proc_macro2::Span::call_site());
                let (x, g) = match &*mc.receiver {
                    Expr::MethodCall(fm) => match &*fm.receiver {
                        Expr::MethodCall(im) => (im.receiver.clone(), fm.args.first().unwrap().clone()),
                        _ => unreachable!(),
                    },
                    _ => unreachable!(),
                };
                let pn = syn::Ident::new(&format!("vx_pred{}", self.pred_counter), proc_macro2::Span::call_site());
                self.pred_counter += 1;
                self.logr("R32", line, format!("`.iter().filter(pred).collect()` -> let {} = pred; {}(&.., {})", pn, to, pn));
                self.pending_lets.push(parse_quote!(let #pn = #g;));
                *e = parse_quote!(#f(&#x, #pn));
            }
            Expr::Lit(l) if matches!(l.lit, syn::Lit::ByteStr(_)) => {
                // R41: a byte-string literal b".." -> helper returning `&'static [u8; N]` whose contract lists the
                // bytes (the verifier knows the literal's length but not its contents)
                let bytes = match &l.lit { syn::Lit::ByteStr(b) => b.value(), _ => unreachable!() };
                let hname = format!("vx_bstr_{}", lit_hash(&format!("{:?}", bytes)));
                let n = bytes.len();
                let elems: Vec<String> = bytes.iter().map(|b| format!("{}u8", b)).collect();
                let helper = format!(
                    "/// the byte-string literal {:?}: contract generated from the literal\n#[verifier::external_body]\npub fn {}() -> (r: &'static [u8; {}])\n    ensures r@ =~= seq![{}],\n{{ unimplemented!() }}",
                    String::from_utf8_lossy(&bytes), hname, n, elems.join(", "));
                if !self.fmt_helpers.iter().any(|(h, _)| h == &hname) {
                    self.fmt_helpers.push((hname.clone(), helper));
                }
                self.logr("R41", line, format!("byte-string literal of {} bytes -> {}()", n, hname));
                let f = syn::Ident::new(&hname, proc_macro2::Span::call_site());
                *e = parse_quote!(#f());
            }
            Expr::Match(m) if m.arms.iter().any(|a| matches!(a.pat, syn::Pat::Slice(_))) => {
                // R40: `match S { [l0, l1, name @ .., r0] => A, .., _ => Z }` over a slice -> an if/else chain on the
                // length and the literal elements, `name` bound to the sub-slice (the language's definition of
                // slice patterns; only literal elements, at most one rest, no guards, a final `_` arm)
                let mut ok = true;
                let mut chain: Vec<(Option<Expr>, Vec<Stmt>, Expr)> = vec![];
                for arm in m.arms.iter() {
                    if arm.guard.is_some() { ok = false; break; }
                    match &arm.pat {
                        syn::Pat::Wild(_) => chain.push((None, vec![], (*arm.body).clone())),
                        syn::Pat::Slice(ps) => {
                            let mut pre: Vec<Expr> = vec![];
                            let mut post: Vec<Expr> = vec![];
                            let mut rest: Option<Option<syn::Ident>> = None;
                            for el in ps.elems.iter() {
                                match el {
                                    syn::Pat::Lit(l) => {
                                        let le: Expr = Expr::Lit(syn::ExprLit { attrs: vec![], lit: l.lit.clone() });
                                        if rest.is_none() { pre.push(le) } else { post.push(le) }
                                    }
                                    syn::Pat::Rest(_) if rest.is_none() => rest = Some(None),
                                    syn::Pat::Ident(pi) if rest.is_none() && pi.by_ref.is_none() && pi.mutability.is_none()
                                        && matches!(pi.subpat.as_ref().map(|(_, p)| &**p), Some(syn::Pat::Rest(_))) => rest = Some(Some(pi.ident.clone())),
                                    _ => { ok = false; }
                                }
                            }
                            let k = pre.len();
                            let mm = post.len();
                            let n = k + mm;
                            let mut cond: Expr = if rest.is_some() { parse_quote!(vx_s.len() >= #n) } else { parse_quote!(vx_s.len() == #n) };
                            for (i, le) in pre.iter().enumerate() {
                                cond = parse_quote!(#cond && vx_s[#i] == #le);
                            }
                            for (j, le) in post.iter().enumerate() {
                                let back = mm - j;
                                cond = parse_quote!(#cond && vx_s[vx_s.len() - #back] == #le);
                            }
                            let mut binds: Vec<Stmt> = vec![];
                            if let Some(Some(id)) = rest {
                                binds.push(parse_quote!(let #id = &vx_s[#k..vx_s.len() - #mm];));
                            }
                            chain.push((Some(cond), binds, (*arm.body).clone()));
                        }
                        _ => { ok = false; }
                    }
                }
                if !ok || chain.last().map_or(true, |c| c.0.is_some()) || chain.iter().rev().skip(1).any(|c| c.0.is_none()) {
                    self.errors.push("unsupported-construct: match with slice patterns outside the supported form (R40)".into());
                } else {
                    let scrut = (*m.expr).clone();
                    let mut acc: Expr = chain.pop().unwrap().2;
                    while let Some((cond, binds, body)) = chain.pop() {
                        let cond = cond.unwrap();
                        acc = parse_quote!(if #cond { #(#binds)* #body } else { #acc });
                    }
                    self.logr("R40", line, "match with slice patterns -> if/else chain on length and literal elements");
                    *e = parse_quote!({ let vx_s = #scrut; #acc });
                }
            }
            Expr::MethodCall(mc) if mc.method == "format" && mc.args.len() == 1
                && matches!(&*mc.receiver, Expr::MethodCall(im) if im.method == "iter" && im.args.is_empty())
                && self.expr_map.iter().any(|(f, _)| f == "__adapter_iter_format") =>
            {
                // R39: itertools `X.iter().format(sep)` -> stand-in whose Display text is the items' Display
                // texts joined by sep (itertools' documented meaning; sep stays an argument, so changing it is seen)
                let to = self.expr_map.iter().find(|(f, _)| f == "__adapter_iter_format").map(|(_, t)| t.clone()).unwrap();
                let f = syn::Ident::new(&to, proc_macro2::Span::call_site());
                let x = match &*mc.receiver { Expr::MethodCall(im) => im.receiver.clone(), _ => unreachable!() };
                let c = mc.args.first().unwrap().clone();
                self.logr("R39", line, format!("`.iter().format(sep)` -> {}(&.., sep)", to));
                *e = parse_quote!(#f(&#x, #c));
            }
            Expr::MethodCall(mc) if mc.method == "find" && mc.args.len() == 1
                && matches!(&*mc.receiver, Expr::MethodCall(im) if im.method == "iter" && im.args.is_empty())
                && self.expr_map.iter().any(|(f, _)| f == "__adapter_iter_find") =>
            {
                // R32 (find): `X.iter().find(pred)` -> stand-in with a contract over pred's own contract
                let to = self.expr_map.iter().find(|(f, _)| f == "__adapter_iter_find").map(|(_, t)| t.clone()).unwrap();
                let f = syn::Ident::new(&to, proc_macro2::Span::call_site());
                let x = match &*mc.receiver { Expr::MethodCall(im) => im.receiver.clone(), _ => unreachable!() };
                let c = mc.args.first().unwrap().clone();
                self.logr("R32", line, format!("`.iter().find(pred)` -> {}(&.., pred)", to));
                *e = parse_quote!(#f(&#x, #c));
            }
            Expr::MethodCall(mc) if mc.method == "fold" && mc.args.len() == 2
                && matches!(&*mc.receiver, Expr::MethodCall(im) if im.method == "iter" && im.args.is_empty())
                && self.expr_map.iter().any(|(f, _)| f == "__adapter_iter_fold") =>
            {
                // R32 (fold): `X.iter().fold(init, f)` -> stand-in with a contract over f's own contract
                let to = self.expr_map.iter().find(|(f, _)| f == "__adapter_iter_fold").map(|(_, t)| t.clone()).unwrap();
                let f = syn::Ident::new(&to, proc_macro2::Span::call_site());
                let x = match &*mc.receiver { Expr::MethodCall(im) => im.receiver.clone(), _ => unreachable!() };
                let init = mc.args[0].clone();
                let g = mc.args[1].clone();
                let pn = syn::Ident::new(&format!("vx_pred{}", self.pred_counter), proc_macro2::Span::call_site());
                self.pred_counter += 1;
                self.logr("R32", line, format!("`.iter().fold(init, f)` -> let {} = f; {}(&.., init, {})", pn, to, pn));
                self.pending_lets.push(parse_quote!(let #pn = #g;));
                *e = parse_quote!(#f(&#x, #init, #pn));
            }
            Expr::MethodCall(mc) if mc.method == "map" && mc.args.len() == 1
                && matches!(&*mc.receiver, Expr::MethodCall(im) if im.method == "split" && im.args.len() == 1)
                && self.expr_map.iter().any(|(f, _)| f == "__adapter_split_map") =>
            {
                // R34: `X.split(c).map(f)` -> the stand-in that applies f to every piece (contract over f's
                // own contract; eager instead of lazy, which is unobservable for a pure f)
                let to = self.expr_map.iter().find(|(f, _)| f == "__adapter_split_map").map(|(_, t)| t.clone()).unwrap();
                let f = syn::Ident::new(&to, proc_macro2::Span::call_site());
                let (x, c) = match &*mc.receiver { Expr::MethodCall(im) => (im.receiver.clone(), im.args.first().unwrap().clone()), _ => unreachable!() };
                let g = mc.args.first().unwrap().clone();
                let pn = syn::Ident::new(&format!("vx_pred{}", self.pred_counter), proc_macro2::Span::call_site());
                self.pred_counter += 1;
                self.logr("R34", line, format!("`.split(c).map(f)` -> let {} = f; {}(.., c, {})", pn, to, pn));
                self.pending_lets.push(parse_quote!(let #pn = #g;));
                *e = parse_quote!(#f(#x, #c, #pn));
            }
            Expr::MethodCall(mc) => {
                // R23: `Enum::Variant` passed as a function value -> the closure it denotes
                let nsyn = self.synth.len();
                let uid = self.uid.clone();
                let mut new_synth: Vec<(String, String)> = vec![];
                let fn_taking = ["map", "map_err", "and_then", "or_else", "unwrap_or_else", "then", "filter_map", "flat_map", "for_each", "map_or_else", "ok_or_else"];
                let takes_fn = fn_taking.contains(&mc.method.to_string().as_str());
                for (ai, a) in mc.args.iter_mut().enumerate() {
                    if !takes_fn {
                        break;
                    }
                    if let Expr::Path(p) = a {
                        let segs: Vec<String> = p.path.segments.iter().map(|s| s.ident.to_string()).collect();
                        if segs.len() >= 2 && p.qself.is_none()
                            && segs[segs.len() - 1].chars().next().map_or(false, |c| c.is_uppercase())
                            && segs[segs.len() - 2].chars().next().map_or(false, |c| c.is_uppercase())
                        {
                            let ctor = p.path.clone();
                            let mut ety = p.path.clone();
                            ety.segments.pop();
                            let last = ety.segments.pop().unwrap().into_value();
                            ety.segments.push(last);
                            let marker = format!("__vxclos_{}_s{}", uid, nsyn + new_synth.len() + ai);
                            let id = syn::Ident::new(&marker, proc_macro2::Span::call_site());
                            let r: Expr = parse_quote!(|vx_x| -> VxRet<vx_r, #ety> { #id!{}; #ctor(vx_x) });
                            let ctor_s = norm(&ctor.to_token_stream());
                            new_synth.push((marker, format!("ensures vx_r == {}(vx_x),\n", ctor_s)));
                            *a = r;
                        }
                    }
                }
                for (m, t) in new_synth {
                    self.log.push(RewriteLog { rule: "R23".into(), line, detail: format!("constructor used as function value -> closure ({})", t.trim()) });
                    self.synth.push((m, t));
                }
                // R5: x.parse::<T>() -> vx_parse_T(x)
                if mc.method == "parse" && mc.args.is_empty() {
                    if let Some(tf) = &mc.turbofish {
                        let t = norm(&tf.args.to_token_stream());
                        let prim = ["u8", "u16", "u32", "u64", "u128", "i8", "i16", "i32", "i64", "i128", "usize"];
                        if prim.contains(&t.as_str()) {
                            let f = syn::Ident::new(&format!("vx_parse_{}", t), proc_macro2::Span::call_site());
                            let recv = &mc.receiver;
                            let r: Expr = parse_quote!(#f(#recv));
                            self.logr("R5", line, format!(".parse::<{}>() -> vx_parse_{}(..)", t, t));
                            *e = r;
                        }
                    }
                }
            }
            _ => {}
        }
    }

    fn visit_local_mut(&mut self, l: &mut syn::Local) {
        visit_mut::visit_local_mut(self, l);
    }
}

/// R7: in a statement list, `let P = loop B;` (with `break E` inside) becomes
/// `let mut __brk = None; loop B[break E -> {__brk = Some(E); break;}] let P = __brk.unwrap();`
struct BreakRewriter {
    var: syn::Ident,
    depth: usize,
    count: usize,
}
impl VisitMut for BreakRewriter {
    fn visit_item_mut(&mut self, _i: &mut Item) {}
    fn visit_expr_closure_mut(&mut self, _c: &mut syn::ExprClosure) {}
    fn visit_expr_mut(&mut self, e: &mut Expr) {
        match e {
            Expr::Loop(_) | Expr::While(_) | Expr::ForLoop(_) => {
                self.depth += 1;
                visit_mut::visit_expr_mut(self, e);
                self.depth -= 1;
            }
            Expr::Break(b) if self.depth == 0 && b.label.is_none() => {
                if let Some(v) = b.expr.take() {
                    let var = &self.var;
                    self.count += 1;
                    *e = parse_quote!({ #var = Some(#v); break; });
                }
            }
            _ => visit_mut::visit_expr_mut(self, e),
        }
    }
}

struct LoopValueRewriter {
    log: Vec<RewriteLog>,
    n: usize,
    uid: String,
}
impl VisitMut for LoopValueRewriter {
    fn visit_item_mut(&mut self, _i: &mut Item) {}
    fn visit_block_mut(&mut self, b: &mut Block) {
        visit_mut::visit_block_mut(self, b);
        // a value-producing `loop` in tail position of a block: same desugaring, the block's value becomes `brk.unwrap()`
        if let Some(Stmt::Expr(Expr::Loop(lp), None)) = b.stmts.last().cloned() {
            let var = syn::Ident::new(&format!("__vx_brk{}", self.n), proc_macro2::Span::call_site());
            let mut lp2 = lp.clone();
            let mut br = BreakRewriter { var: var.clone(), depth: 0, count: 0 };
            br.visit_block_mut(&mut lp2.body);
            if br.count > 0 {
                self.n += 1;
                let line = line_of(&lp);
                self.log.push(RewriteLog { rule: "R7".into(), line, detail: format!("tail `loop {{ break v }}` desugared via {} ({} break sites)", var, br.count) });
                b.stmts.pop();
                b.stmts.push(parse_quote!(let mut #var = None;));
                b.stmts.push(Stmt::Expr(Expr::Loop(lp2), None));
                b.stmts.push(Stmt::Expr(parse_quote!(#var.unwrap()), None));
            }
        }
        let stmts = std::mem::take(&mut b.stmts);
        let mut out = Vec::new();
        for s in stmts {
            if let Stmt::Local(l) = &s {
                if let Some(init) = &l.init {
                    if let Expr::Loop(lp) = &*init.expr {
                        if init.diverge.is_none() {
                            let var = syn::Ident::new(&format!("__vx_brk{}", self.n), proc_macro2::Span::call_site());
                            self.n += 1;
                            let mut lp2 = lp.clone();
                            let mut br = BreakRewriter { var: var.clone(), depth: 0, count: 0 };
                            br.visit_block_mut(&mut lp2.body);
                            if br.count > 0 {
                                let pat = &l.pat;
                                let line = line_of(&s);
                                self.log.push(RewriteLog { rule: "R7".into(), line, detail: format!("let .. = loop {{ break v }} desugared via {} ({} break sites)", var, br.count) });
                                out.push(parse_quote!(let mut #var = None;));
                                out.push(Stmt::Expr(Expr::Loop(lp2), None));
                                out.push(parse_quote!(let #pat = #var.unwrap();));
                                let _ = &self.uid;
                                continue;
                            }
                        }
                    }
                }
            }
            out.push(s);
        }
        b.stmts = out;
    }
}

/// Final pass: install markers for spec'd fn/loops/closures, strip vx_ord attrs.
struct Marker<'a> {
    spec: &'a FnSpec,
    uid: String,
    used_loops: Vec<String>,
    used_closures: Vec<String>,
    errors: Vec<String>,
    closure_headers: BTreeMap<String, String>,
    auto: Vec<(String, String)>,
    new_unannotated: usize,
}
impl<'a> VisitMut for Marker<'a> {
    fn visit_item_mut(&mut self, _i: &mut Item) {}
    fn visit_expr_mut(&mut self, e: &mut Expr) {
        visit_mut::visit_expr_mut(self, e);
        let uid = self.uid.clone();
        let mut mark_loop = |attrs: &mut Vec<Attribute>, body: &mut Block, used: &mut Vec<String>, spec: &FnSpec| {
            if let Some(k) = vx_ord(attrs) {
                if spec.loops.contains_key(&k.to_string()) {
                    let id = syn::Ident::new(&format!("__vxloop_{}_{}", uid, k), proc_macro2::Span::call_site());
                    body.stmts.insert(0, parse_quote!(#id!{};));
                    used.push(k.to_string());
                }
            }
            strip_vx_ord(attrs);
        };
        match e {
            Expr::While(w) => mark_loop(&mut w.attrs, &mut w.body, &mut self.used_loops, self.spec),
            Expr::Loop(w) => mark_loop(&mut w.attrs, &mut w.body, &mut self.used_loops, self.spec),
            Expr::ForLoop(w) => mark_loop(&mut w.attrs, &mut w.body, &mut self.used_loops, self.spec),
            Expr::Try(t) => strip_vx_ord(&mut t.attrs),
            Expr::Closure(c) => {
                if let Some(k) = vx_ord(&c.attrs) {
                    if let Some(text) = self.spec.closures.get(&k.to_string()) {
                        // header line: |a: T, b: U| -> (r: V)
                        let header = text.lines().find(|l| !l.trim().is_empty()).unwrap_or("").trim().to_string();
                        match parse_closure_header(&header) {
                            Ok((inputs, rname, rty)) => {
                                // parameter names must equal the original ones
                                let orig: Vec<String> = c.inputs.iter().map(|p| pat_name(p)).collect();
                                let new: Vec<String> = inputs.iter().map(|p| pat_name(p)).collect();
                                if orig != new {
                                    self.errors.push(format!("lost-anchor: closure #{} parameters {:?} differ from spec {:?}", k, orig, new));
                                } else {
                                    c.inputs = inputs.into_iter().collect();
                                    let rn = syn::Ident::new(&rname, proc_macro2::Span::call_site());
                                    c.output = syn::ReturnType::Type(Default::default(), Box::new(parse_quote!(VxRet<#rn, #rty>)));
                                    let id = syn::Ident::new(&format!("__vxclos_{}_{}", uid, k), proc_macro2::Span::call_site());
                                    let body = &c.body;
                                    let nb: Expr = match &**body {
                                        Expr::Block(b) if b.label.is_none() && b.attrs.is_empty() => {
                                            let stmts = &b.block.stmts;
                                            parse_quote!({ #id!{}; #(#stmts)* })
                                        }
                                        _ => parse_quote!({ #id!{}; #body }),
                                    };
                                    c.body = Box::new(nb);
                                    self.used_closures.push(k.to_string());
                                    self.closure_headers.insert(k.to_string(), header);
                                }
                            }
                            Err(er) => self.errors.push(format!("closure #{} header unparsable: {}", k, er)),
                        }
                    } else if c.attrs.iter().any(|a| a.path().is_ident("vx_new")) {
                        // R38: a closure that was not there when the contracts were written gets the automatic
                        // contract "its result equals its body" when the body is a single expression; if that
                        // expression is not expressible as a specification the verifier stops (undecided)
                        let simple = match &*c.body {
                            Expr::Block(b) => b.block.stmts.len() == 1 && matches!(b.block.stmts[0], Stmt::Expr(_, None)),
                            _ => true,
                        };
                        if simple && matches!(c.output, syn::ReturnType::Default) {
                            let bexpr: Expr = match &*c.body {
                                Expr::Block(b) => match &b.block.stmts[0] { Stmt::Expr(e, None) => e.clone(), _ => unreachable!() },
                                e => e.clone(),
                            };
                            c.output = syn::ReturnType::Type(Default::default(), Box::new(parse_quote!(VxRet<vx_o, _>)));
                            let marker = format!("__vxclos_{}_n{}", self.uid, k);
                            let id = syn::Ident::new(&marker, proc_macro2::Span::call_site());
                            c.body = Box::new(parse_quote!({ #id!{}; #bexpr }));
                            self.auto.push((marker, format!("ensures equal(vx_o, {}),\n", bexpr.to_token_stream())));
                        } else {
                            self.new_unannotated += 1;
                        }
                    }
                }
                strip_vx_ord(&mut c.attrs);
            }
            _ => {}
        }
    }
}

fn pat_name(p: &syn::Pat) -> String {
    match p {
        syn::Pat::Type(t) => pat_name(&t.pat),
        other => norm(&other.to_token_stream()),
    }
}

fn parse_closure_header(h: &str) -> Result<(Vec<syn::Pat>, String, syn::Type), String> {
    // |a: T| -> (r: U)
    let arrow = h.rfind("->").ok_or("no -> in closure header")?;
    let params = h[..arrow].trim();
    let ret = h[arrow + 2..].trim();
    let c: syn::ExprClosure = syn::parse_str(&format!("{} ()", params)).map_err(|e| format!("{}: {}", params, e))?;
    let ret = ret.trim();
    let ret = if ret.starts_with('(') && ret.ends_with(')') { &ret[1..ret.len() - 1] } else { ret };
    let colon = ret.find(':').ok_or("no name: in closure return")?;
    let rname = ret[..colon].trim().to_string();
    let rty: syn::Type = syn::parse_str(ret[colon + 1..].trim()).map_err(|e| e.to_string())?;
    Ok((c.inputs.into_iter().collect(), rname, rty))
}

struct Outliner {
    target: String,
    call: Expr,
    found: Option<Expr>,
}
/// positional fragment: the scrutinee of the (first) `if let <pat> = <scrutinee>` whose pattern is `pat`,
/// whatever its text is (so a changed scrutinee is still outlined and verified, not a lost anchor)
struct ScrutineeOutliner {
    pat: String,
    call: Expr,
    found: Option<Expr>,
}
impl VisitMut for ScrutineeOutliner {
    fn visit_item_mut(&mut self, _i: &mut Item) {}
    fn visit_expr_mut(&mut self, e: &mut Expr) {
        if self.found.is_none() {
            if let Expr::If(ei) = e {
                if let Expr::Let(l) = &mut *ei.cond {
                    if norm_m(&l.pat.to_token_stream()) == self.pat {
                        let orig = std::mem::replace(&mut *l.expr, self.call.clone());
                        self.found = Some(orig);
                        return;
                    }
                }
            }
        }
        visit_mut::visit_expr_mut(self, e);
    }
}
impl VisitMut for Outliner {
    fn visit_item_mut(&mut self, _i: &mut Item) {}
    fn visit_expr_mut(&mut self, e: &mut Expr) {
        if self.found.is_none() && norm_m(&e.to_token_stream()) == self.target {
            let orig = std::mem::replace(e, self.call.clone());
            self.found = Some(orig);
            return;
        }
        visit_mut::visit_expr_mut(self, e);
    }
}

struct Ctx<'a> {
    renames: Vec<(Vec<String>, Vec<String>)>,
    macro_map: &'a BTreeMap<String, String>,
    expr_map: Vec<(String, String)>,
    type_map: Vec<(String, String)>,
}

/// Processes one fn (sig + block). Returns substitutions to perform after formatting.
fn process_fn(
    ctx: &Ctx,
    unit: &UnitReq,
    uid: &str,
    attrs: &mut Vec<Attribute>,
    sig: &mut syn::Signature,
    block: &mut Block,
    spec: &FnSpec,
    out: &mut UnitOut,
    subs: &mut Vec<(String, String, String)>, // (kind, marker, text)
) {
    let mut num = Numberer { loops: 0, closures: 0, tries: 0, closure_hashes: vec![], known: unit.known_closures.clone() };
    num.visit_block_mut(block);
    out.n_loops += num.loops;
    out.n_closures += num.closures;
    out.n_tries += num.tries;
    for (k, h, p) in &num.closure_hashes {
        out.closure_info.push((sig.ident.to_string(), *k, h.clone(), p.clone()));
    }
    // closures anchored by body hash: renumber so that the spec key follows the closure body
    if !spec.closure_hashes.is_empty() {
        let mut remap: BTreeMap<usize, usize> = BTreeMap::new(); // actual ordinal -> spec key
        let mut taken: Vec<usize> = vec![];
        let mut by_hash: BTreeMap<String, Vec<usize>> = BTreeMap::new();
        for (key, h) in &spec.closure_hashes {
            by_hash.entry(h.clone()).or_default().push(key.parse().unwrap_or(usize::MAX));
        }
        for (h, keys) in by_hash.iter_mut() {
            keys.sort();
            let hits: Vec<usize> = num.closure_hashes.iter().filter(|(_, hh, _)| hh == h).map(|(a, _, _)| *a).collect();
            if hits.len() == keys.len() {
                for (a, k) in hits.iter().zip(keys.iter()) {
                    remap.insert(*a, *k);
                    taken.push(*k);
                }
            }
        }
        if !remap.is_empty() {
            // every closure not matched by hash keeps its ordinal unless that key is taken; then it gets a fresh one
            let mut fresh = num.closures + 1000;
            struct Renum<'b> { remap: &'b BTreeMap<usize, usize>, taken: &'b Vec<usize>, fresh: &'b mut usize }
            impl<'b> VisitMut for Renum<'b> {
                fn visit_item_mut(&mut self, _i: &mut Item) {}
                fn visit_expr_mut(&mut self, e: &mut Expr) {
                    if let Expr::Closure(c) = e {
                        if let Some(a) = vx_ord(&c.attrs) {
                            let newk = if let Some(k) = self.remap.get(&a) { *k } else if self.taken.contains(&a) { *self.fresh += 1; *self.fresh } else { a };
                            strip_vx_ord(&mut c.attrs);
                            c.attrs.push(parse_quote!(#[vx_ord(#newk)]));
                        }
                    }
                    visit_mut::visit_expr_mut(self, e);
                }
            }
            let mut rn = Renum { remap: &remap, taken: &taken, fresh: &mut fresh };
            rn.visit_block_mut(block);
            let moved: Vec<String> = remap.iter().filter(|(a, k)| a != k).map(|(a, k)| format!("{}->{}", a, k)).collect();
            if !moved.is_empty() {
                out.rewrites.push(RewriteLog { rule: "R12".into(), line: line_of(&sig.ident), detail: format!("closure contracts re-anchored by body hash (actual ordinal->spec key): {}", moved.join(" ")) });
            }
        }
    }

    let mut sig_attr_dummy: Vec<Attribute> = vec![];
    std::mem::swap(&mut sig_attr_dummy, attrs);
    sig_attr_dummy.retain(|a| !is_doc_or_dropped_attr(a));
    *attrs = sig_attr_dummy;

    let mut intoiter_params: Vec<String> = vec![];
    // R19: argument-position `impl Trait` -> named generic parameter (so that contracts can name the type)
    {
        let mut k = 0usize;
        let mut new_params: Vec<syn::GenericParam> = vec![];
        let mut new_lts: Vec<syn::Lifetime> = vec![];
        for arg in sig.inputs.iter_mut() {
            if let syn::FnArg::Typed(pt) = arg {
                // `&mut impl Trait` / `&impl Trait`: the impl type sits under a reference
                let mut under_ref: Option<(bool, Option<syn::Lifetime>)> = None;
                let mut it_opt: Option<syn::TypeImplTrait> = None;
                match &*pt.ty {
                    syn::Type::ImplTrait(it) => it_opt = Some(it.clone()),
                    syn::Type::Reference(r) => {
                        if let syn::Type::ImplTrait(it) = &*r.elem {
                            it_opt = Some(it.clone());
                            under_ref = Some((r.mutability.is_some(), r.lifetime.clone()));
                        }
                    }
                    _ => {}
                }
                if let Some(it) = &it_opt {
                    let id = syn::Ident::new(&format!("VxI{}", k), proc_macro2::Span::call_site());
                    k += 1;
                    // elided lifetimes inside the bounds become fresh named lifetime parameters
                    struct LtFix { n: usize, names: Vec<syn::Lifetime> }
                    impl VisitMut for LtFix {
                        fn visit_type_reference_mut(&mut self, r: &mut syn::TypeReference) {
                            if r.lifetime.is_none() {
                                let lt = syn::Lifetime::new(&format!("'vxl{}", self.n), proc_macro2::Span::call_site());
                                self.n += 1;
                                self.names.push(lt.clone());
                                r.lifetime = Some(lt);
                            }
                            visit_mut::visit_type_reference_mut(self, r);
                        }
                    }
                    let mut bounds = it.bounds.clone();
                    let mut lf = LtFix { n: new_lts.len(), names: vec![] };
                    for b in bounds.iter_mut() {
                        lf.visit_type_param_bound_mut(b);
                    }
                    new_lts.extend(lf.names);
                    let bounds = &bounds;
                    new_params.push(parse_quote!(#id: #bounds));
                    let line = line_of(&*pt.ty);
                    out.rewrites.push(RewriteLog { rule: "R19".into(), line, detail: format!("argument `impl {}` -> generic {}", norm(&bounds.to_token_stream()), id) });
                    if norm(&bounds.to_token_stream()).contains("IntoIterator") {
                        intoiter_params.push(pat_name(&pt.pat));
                    }
                    pt.ty = match &under_ref {
                        None => Box::new(parse_quote!(#id)),
                        Some((true, lt)) => Box::new(parse_quote!(& #lt mut #id)),
                        Some((false, lt)) => Box::new(parse_quote!(& #lt #id)),
                    };
                }
            }
        }
        for p in new_params {
            sig.generics.params.push(p);
        }
        for (i, lt) in new_lts.into_iter().enumerate() {
            sig.generics.params.insert(i, parse_quote!(#lt));
        }
    }
    if !unit.no_rewrites {
        let pins_norm: Vec<String> = spec.pins.iter().map(|p| norm_str(&p.original).unwrap_or_default()).collect();
        let mut rw = Rewriter {
            expr_map: &ctx.expr_map,
            type_map: &ctx.type_map,
            spec,
            renames: &ctx.renames,
            macro_map: ctx.macro_map,
            log: vec![],
            errors: vec![],
            hint_seen: vec![0; spec.hints.len()],
            hint_placed: vec![false; spec.hints.len()],
            pin_used: vec![false; spec.pins.len()],
            pins_norm,
            fn_marker: String::new(),
            uid: uid.to_string(),
            brk_counter: 0,
            synth: vec![],
            intoiter_params: vec![],
            fmt_helpers: vec![],
            pinned: vec![],
            pending_lets: vec![],
            pred_counter: 0,
        };
        let _ = (&rw.fn_marker, rw.brk_counter);
        rw.intoiter_params = intoiter_params.clone();
        rw.visit_signature_mut(sig);
        rw.visit_block_mut(block);
        for (i, h) in spec.hints.iter().enumerate() {
            if (h.pos == "before" || h.pos == "after") && !rw.hint_placed[i] {
                rw.errors.push(format!("lost-anchor: hint anchor `{}` (nth {}) not found in {}", h.anchor, h.nth, sig.ident));
            }
        }
        for (i, p) in spec.pins.iter().enumerate() {
            if !rw.pin_used[i] {
                rw.errors.push(format!("lost-anchor: pinned fragment not found in {}: `{}`", sig.ident, p.original.chars().take(80).collect::<String>()));
            }
        }
        out.rewrites.extend(rw.log);
        out.fmt_helpers.extend(rw.fmt_helpers.clone());
        for (m, t) in rw.synth {
            subs.push(("loop".into(), m, t));
        }
        for e in rw.errors {
            out.error = Some(match out.error.take() { Some(x) => format!("{}; {}", x, e), None => e });
        }
        let mut lv = LoopValueRewriter { log: vec![], n: 0, uid: uid.to_string() };
        lv.visit_block_mut(block);
        out.rewrites.extend(lv.log);
        // R29 (receiver): `mut self` -> `self` plus `let mut vx_self = self;`, every later `self` renamed
        if let Some(syn::FnArg::Receiver(r)) = sig.inputs.first_mut() {
            if r.reference.is_none() && r.mutability.is_some() {
                r.mutability = None;
                if let syn::Type::Path(_) = &*r.ty { /* `Self` */ }
                struct SelfRen;
                impl VisitMut for SelfRen {
                    fn visit_item_mut(&mut self, _i: &mut Item) {}
                    fn visit_expr_path_mut(&mut self, p: &mut syn::ExprPath) {
                        if p.path.is_ident("self") {
                            p.path = parse_quote!(vx_self);
                        }
                    }
                }
                SelfRen.visit_block_mut(block);
                block.stmts.insert(0, parse_quote!(let mut vx_self = self;));
                out.rewrites.push(RewriteLog { rule: "R29".into(), line: line_of(&sig.ident), detail: "`mut self` receiver -> rebinding `let mut vx_self = self;` (all uses renamed)".into() });
            }
        }
    }
    // R29: `mut x: T` parameters -> `x: T` plus `let mut x = x;` (the verifier does not accept `mut` parameters)
    {
        let mut rebinds: Vec<Stmt> = vec![];
        for arg in sig.inputs.iter_mut() {
            if let syn::FnArg::Typed(pt) = arg {
                if let syn::Pat::Ident(pi) = &mut *pt.pat {
                    if pi.mutability.is_some() && pi.by_ref.is_none() {
                        pi.mutability = None;
                        let id = pi.ident.clone();
                        rebinds.push(parse_quote!(let mut #id = #id;));
                        out.rewrites.push(RewriteLog { rule: "R29".into(), line: line_of(&id), detail: format!("`mut {}` parameter -> rebinding `let mut {} = {};`", id, id, id) });
                    }
                }
            }
        }
        for (k, st) in rebinds.into_iter().enumerate() {
            block.stmts.insert(k, st);
        }
    }
    // R10
    if spec.self_mut {
        if let Some(syn::FnArg::Receiver(r)) = sig.inputs.first_mut() {
            if r.reference.is_some() && r.mutability.is_none() {
                let line = line_of(r);
                *r = parse_quote!(&mut self);
                out.rewrites.push(RewriteLog { rule: "R10".into(), line, detail: "&self -> &mut self".into() });
            }
        }
    }
    let mut mk = Marker { spec, uid: uid.to_string(), used_loops: vec![], used_closures: vec![], errors: vec![], closure_headers: BTreeMap::new(), auto: vec![], new_unannotated: 0 };
    mk.visit_block_mut(block);
    // A loop-free body needs no invariants: the loop specs are dropped (logged) and the body is
    // checked as it stands.  Any other mismatch in the loop count is a lost anchor.
    let loop_free = num.loops == 0 && !spec.loops.is_empty();
    if loop_free {
        out.rewrites.push(RewriteLog { rule: "R30".into(), line: 0, detail: format!("{}: body has no loops, {} loop spec(s) unused", sig.ident, spec.loops.len()) });
    } else {
        for k in spec.loops.keys() {
            if !mk.used_loops.contains(k) {
                mk.errors.push(format!("lost-anchor: loop #{} not found in {}", k, sig.ident));
            }
        }
    }
    for (marker, text) in &mk.auto {
        subs.push(("loop".into(), marker.clone(), text.clone()));
        out.rewrites.push(RewriteLog { rule: "R38".into(), line: 0, detail: format!("{}: new closure given the automatic contract `result == body`", sig.ident) });
    }
    out.auto_closures += mk.auto.len();
    out.new_unannotated += mk.new_unannotated;
    for k in spec.closures.keys() {
        if !mk.used_closures.contains(k) {
            mk.errors.push(format!("lost-anchor: closure #{} not found in {}", k, sig.ident));
        }
    }
    for e in mk.errors {
        out.error = Some(match out.error.take() { Some(x) => format!("{}; {}", x, e), None => e });
    }
    if !loop_free {
        for (k, text) in &spec.loops {
            subs.push(("loop".into(), format!("__vxloop_{}_{}", uid, k), text.clone()));
        }
    }
    for (k, text) in &spec.closures {
        // drop header line (already applied structurally)
        let mut lines = text.lines();
        let mut rest = String::new();
        let mut seen_header = false;
        for l in &mut lines {
            if !seen_header {
                if !l.trim().is_empty() {
                    seen_header = true;
                }
                continue;
            }
            rest.push_str(l);
            rest.push('\n');
        }
        subs.push(("loop".into(), format!("__vxclos_{}_{}", uid, k), rest));
    }
    for (i, h) in spec.hints.iter().enumerate() {
        match h.pos.as_str() {
            "first" => {
                let id = syn::Ident::new(&format!("__vxhint_{}_{}", uid, i), proc_macro2::Span::call_site());
                block.stmts.insert(0, parse_quote!(#id!{};));
            }
            "last" => {
                // only meaningful for bodies whose value is (): the hint becomes the final statement
                let id = syn::Ident::new(&format!("__vxhint_{}_{}", uid, i), proc_macro2::Span::call_site());
                block.stmts.push(parse_quote!(#id!{};));
            }
            _ => {}
        }
        subs.push(("hint".into(), format!("__vxhint_{}_{}", uid, i), h.text.clone()));
    }
    // return naming + fn marker
    let rname = syn::Ident::new(spec.ret.as_deref().unwrap_or("r"), proc_macro2::Span::call_site());
    let rty: syn::Type = match &sig.output {
        syn::ReturnType::Default => parse_quote!(()),
        syn::ReturnType::Type(_, t) => (**t).clone(),
    };
    sig.output = syn::ReturnType::Type(Default::default(), Box::new(parse_quote!(VxRet<#rname, #rty>)));
    let id = syn::Ident::new(&format!("__vxfn_{}", uid), proc_macro2::Span::call_site());
    if spec.external_body {
        block.stmts.clear();
        block.stmts.push(parse_quote!(#id!{};));
        block.stmts.push(Stmt::Expr(parse_quote!(unimplemented!()), None));
        attrs.push(parse_quote!(#[verifier::external_body]));
    } else {
        block.stmts.insert(0, parse_quote!(#id!{};));
    }
    for a in &spec.attrs {
        match syn::parse_str::<syn::Meta>(a) {
            Ok(m) => attrs.push(parse_quote!(#[#m])),
            Err(e) => out.error = Some(format!("attr `{}` unparsable: {}", a, e)),
        }
    }
    subs.push(("loop".into(), format!("__vxfn_{}", uid), spec.spec.clone().unwrap_or_default()));
}

/// Replace `VxRet<name, T>` by `(name: T)` in formatted text.
fn fix_vxret(s: &str) -> String {
    let mut out = String::new();
    let mut rest = s;
    while let Some(pos) = rest.find("VxRet<") {
        out.push_str(&rest[..pos]);
        let after = &rest[pos + 6..];
        let bytes: Vec<char> = after.chars().collect();
        let mut depth = 1usize;
        let mut i = 0usize;
        while i < bytes.len() {
            let c = bytes[i];
            if c == '-' && i + 1 < bytes.len() && bytes[i + 1] == '>' {
                i += 2;
                continue;
            }
            if c == '<' {
                depth += 1;
            } else if c == '>' {
                depth -= 1;
                if depth == 0 {
                    break;
                }
            }
            i += 1;
        }
        let inner: String = bytes[..i].iter().collect();
        let comma = inner.find(',').unwrap_or(0);
        let name = inner[..comma].trim();
        let ty = inner[comma + 1..].trim();
        // collapse whitespace/newlines inside the type
        let ty: String = ty.split_whitespace().collect::<Vec<_>>().join(" ");
        let ty = ty.trim_end_matches(',').trim().to_string();
        out.push_str(&format!("({}: {})", name, ty));
        let consumed: usize = bytes[..i + 1].iter().map(|c| c.len_utf8()).sum();
        rest = &after[consumed..];
    }
    out.push_str(rest);
    out
}

fn indent_of(l: &str) -> String {
    l.chars().take_while(|c| c.is_whitespace()).collect()
}

fn apply_subs(text: &str, subs: &[(String, String, String)]) -> Result<String, String> {
    let mut lines: Vec<String> = text.lines().map(|s| s.to_string()).collect();
    for (kind, marker, body) in subs {
        let pat1 = format!("{}! {{}};", marker);
        let pat2 = format!("{}! {{}}", marker);
        let idx = match lines.iter().position(|l| l.trim() == pat1 || l.trim() == pat2 || l.trim() == format!("{}!{{}};", marker)) {
            Some(i) => i,
            None => return Err(format!("internal: marker {} not found after formatting", marker)),
        };
        let ind = indent_of(&lines[idx]);
        if kind == "hint" {
            let repl: Vec<String> = body.lines().map(|l| format!("{}{}", ind, l.trim_end())).collect();
            lines.splice(idx..idx + 1, repl);
        } else {
            // spec goes between the header and the `{` that ends the previous non-empty line
            let mut p = idx;
            loop {
                if p == 0 {
                    return Err(format!("internal: no opening brace before marker {}", marker));
                }
                p -= 1;
                if !lines[p].trim().is_empty() {
                    break;
                }
            }
            let prev = lines[p].trim_end().to_string();
            if !prev.ends_with('{') {
                return Err(format!("internal: line before marker {} does not end with '{{': {}", marker, prev));
            }
            let mut head = prev[..prev.len() - 1].trim_end().to_string();
            let hind = indent_of(&lines[p]);
            // `@iter name` as first spec line: name the ghost iterator of a `for` loop (annotation only)
            let mut body_owned = body.clone();
            if let Some(first) = body.lines().find(|l| !l.trim().is_empty()) {
                if let Some(name) = first.trim().strip_prefix("@iter ") {
                    let t = head.trim_start();
                    if let (true, Some(pos)) = (t.starts_with("for ") || t.contains(": for "), head.find(" in ")) {
                        head = format!("{} in {}: {}", &head[..pos], name.trim(), &head[pos + 4..]);
                    } else {
                        return Err(format!("lost-anchor: @iter on a loop header that is not a single-line `for .. in ..`: {}", head));
                    }
                    body_owned = body.lines().filter(|l| l.trim() != first.trim()).collect::<Vec<_>>().join("\n");
                }
            }
            // `@pre <ghost statement>` lines are emitted just before the loop header (annotation only)
            let mut pre_lines: Vec<String> = vec![];
            {
                let mut kept: Vec<String> = vec![];
                for l in body_owned.lines() {
                    if let Some(p) = l.trim().strip_prefix("@pre ") {
                        pre_lines.push(p.to_string());
                    } else {
                        kept.push(l.to_string());
                    }
                }
                body_owned = kept.join("\n");
            }
            let body = &body_owned;
            let mut repl: Vec<String> = vec![];
            for p in &pre_lines {
                repl.push(format!("{}{}", hind, p));
            }
            if !head.trim().is_empty() {
                repl.push(head);
            }
            for l in body.lines() {
                if l.trim().is_empty() {
                    continue;
                }
                repl.push(format!("{}    {}", hind, l.trim_end().trim_start()));
            }
            repl.push(format!("{}{{", hind));
            lines.splice(p..idx + 1, repl);
        }
    }
    Ok(lines.join("\n"))
}

fn find_module_items<'a>(items: &'a [Item], path: &[String]) -> Option<&'a [Item]> {
    if path.is_empty() {
        return Some(items);
    }
    for it in items {
        if let Item::Mod(m) = it {
            if m.ident == path[0] {
                if let Some((_, content)) = &m.content {
                    return find_module_items(content, &path[1..]);
                }
            }
        }
    }
    None
}

fn item_ident(it: &Item) -> Option<String> {
    Some(match it {
        Item::Fn(f) => f.sig.ident.to_string(),
        Item::Struct(s) => s.ident.to_string(),
        Item::Enum(s) => s.ident.to_string(),
        Item::Const(s) => s.ident.to_string(),
        Item::Static(s) => s.ident.to_string(),
        Item::Type(s) => s.ident.to_string(),
        Item::Trait(s) => s.ident.to_string(),
        _ => return None,
    })
}

fn is_cfg_test(attrs: &[Attribute]) -> bool {
    attrs.iter().any(|a| a.path().is_ident("cfg") && norm(&a.meta.to_token_stream()).contains("test"))
}

/// R1 on type declarations: filter attributes and derives; returns extra generated impls.
fn clean_type_item(it: &mut Item, keep: &[String], log: &mut Vec<RewriteLog>, drop_fields: &[String]) -> Vec<String> {
    let mut extra = vec![];
    let line = line_of(it);
    {
        let mut widened = false;
        let mut widen = |v: &mut syn::Visibility| {
            if !matches!(v, syn::Visibility::Public(_)) {
                *v = parse_quote!(pub);
                widened = true;
            }
        };
        match it {
            Item::Struct(s) => {
                widen(&mut s.vis);
                for f in s.fields.iter_mut() {
                    widen(&mut f.vis);
                }
            }
            Item::Enum(s) => widen(&mut s.vis),
            Item::Const(s) => widen(&mut s.vis),
            Item::Type(s) => widen(&mut s.vis),
            Item::Trait(s) => widen(&mut s.vis),
            _ => {}
        }
        if widened {
            log.push(RewriteLog { rule: "R21".into(), line, detail: "visibility widened to pub (incl. fields)".into() });
        }
    }
    let (attrs, ident, generics, is_copy): (&mut Vec<Attribute>, syn::Ident, syn::Generics, bool);
    match it {
        Item::Struct(s) => {
            for f in s.fields.iter_mut() {
                f.attrs.retain(|a| !is_doc_or_dropped_attr(a));
            }
            if !drop_fields.is_empty() {
                if let syn::Fields::Named(n) = &mut s.fields {
                    let kept: syn::punctuated::Punctuated<syn::Field, syn::Token![,]> = n
                        .named
                        .iter()
                        .filter(|f| !drop_fields.contains(&f.ident.as_ref().unwrap().to_string()))
                        .cloned()
                        .collect();
                    for d in drop_fields {
                        log.push(RewriteLog { rule: "R16".into(), line, detail: format!("field {} dropped (type outside the modelled subset)", d) });
                    }
                    n.named = kept;
                }
            }
            ident = s.ident.clone();
            generics = s.generics.clone();
            attrs = &mut s.attrs;
        }
        Item::Enum(s) => {
            for v in s.variants.iter_mut() {
                v.attrs.retain(|a| !is_doc_or_dropped_attr(a));
                for f in v.fields.iter_mut() {
                    f.attrs.retain(|a| !is_doc_or_dropped_attr(a));
                }
            }
            ident = s.ident.clone();
            generics = s.generics.clone();
            attrs = &mut s.attrs;
        }
        Item::Const(c) => {
            c.attrs.retain(|a| !is_doc_or_dropped_attr(a));
            if let syn::Type::Reference(r) = &mut *c.ty {
                if r.lifetime.is_none() {
                    r.lifetime = Some(parse_quote!('static));
                    log.push(RewriteLog { rule: "R17".into(), line, detail: format!("const {}: elided 'static lifetime made explicit", c.ident) });
                }
            }
            return extra;
        }
        Item::Type(c) => {
            c.attrs.retain(|a| !is_doc_or_dropped_attr(a));
            return extra;
        }
        Item::Trait(t) => {
            t.attrs.retain(|a| !is_doc_or_dropped_attr(a));
            for ti in t.items.iter_mut() {
                if let syn::TraitItem::Fn(f) = ti {
                    f.attrs.retain(|a| !is_doc_or_dropped_attr(a));
                }
            }
            return extra;
        }
        _ => return extra,
    }
    let mut derives: Vec<String> = vec![];
    for a in attrs.iter() {
        if a.path().is_ident("derive") {
            if let Ok(list) = a.parse_args_with(syn::punctuated::Punctuated::<syn::Path, syn::Token![,]>::parse_terminated) {
                for p in list {
                    derives.push(p.segments.last().unwrap().ident.to_string());
                }
            }
        }
    }
    attrs.retain(|a| !is_doc_or_dropped_attr(a) && !a.path().is_ident("derive"));
    let copy = derives.iter().any(|d| d == "Copy");
    is_copy = copy;
    let mut kept: Vec<String> = vec![];
    let has_generics = !generics.params.is_empty();
    for d in &derives {
        if d == "Clone" && !is_copy {
            extra.push("@gen:Clone".into());
            log.push(RewriteLog { rule: "R1".into(), line, detail: format!("derive(Clone) on {} -> assumed structural clone spec", ident) });
            continue;
        }
        if (d == "PartialEq" || d == "Eq" || d == "Default") && !has_generics && keep.contains(d) {
            extra.push(format!("@gen:{}", d));
            log.push(RewriteLog { rule: "R1".into(), line, detail: format!("derive({}) on {} -> generated impl with the assumed meaning of the derive (structural)", d, ident) });
            continue;
        }
        if keep.contains(d) && d != "Default" {
            kept.push(d.clone());
        } else {
            log.push(RewriteLog { rule: "R1".into(), line, detail: format!("derive({}) on {} dropped", d, ident) });
        }
    }
    if !kept.is_empty() {
        let ids: Vec<syn::Ident> = kept.iter().map(|k| syn::Ident::new(k, proc_macro2::Span::call_site())).collect();
        attrs.push(parse_quote!(#[derive(#(#ids),*)]));
    }
    extra
}

/// R1: text of the impls standing for derive(Clone/PartialEq/Eq/Default) (assumed: derives are structural)
fn gen_derive_impls(it: &mut Item, gens: &[String]) -> Vec<String> {
    let mut out = vec![];
    let (ident, generics) = match it {
        Item::Struct(s) => (s.ident.clone(), s.generics.clone()),
        Item::Enum(s) => (s.ident.clone(), s.generics.clone()),
        _ => return out,
    };
    let (ig, tg, wc) = generics.split_for_impl();
    let (ig, tg, wc) = (ig.to_token_stream().to_string(), tg.to_token_stream().to_string(), wc.to_token_stream().to_string());
    // default value expression
    let mut default_expr: Option<String> = None;
    match it {
        Item::Struct(s) => {
            match &s.fields {
                syn::Fields::Named(n) => {
                    let fs: Vec<String> = n.named.iter().map(|f| format!("{}: <{} as VxDefault>::vx_default()", f.ident.as_ref().unwrap(), f.ty.to_token_stream())).collect();
                    default_expr = Some(format!("{} {{ {} }}", ident, fs.join(", ")));
                }
                syn::Fields::Unnamed(n) => {
                    let fs: Vec<String> = n.unnamed.iter().map(|f| format!("<{} as VxDefault>::vx_default()", f.ty.to_token_stream())).collect();
                    default_expr = Some(format!("{}({})", ident, fs.join(", ")));
                }
                syn::Fields::Unit => default_expr = Some(format!("{}", ident)),
            }
        }
        Item::Enum(e) => {
            for v in e.variants.iter_mut() {
                if v.attrs.iter().any(|a| a.path().is_ident("default")) {
                    default_expr = Some(format!("{}::{}", ident, v.ident));
                }
                v.attrs.retain(|a| !a.path().is_ident("default"));
            }
        }
        _ => {}
    }
    for g in gens {
        match g.as_str() {
            "@gen:Clone" => out.push(format!(
                "impl {ig} Clone for {ident} {tg} {wc} {{\n    #[verifier::external_body]\n    fn clone(&self) -> (r: Self)\n        ensures r == *self,\n    {{ unimplemented!() }}\n}}")),
            "@gen:PartialEq" => out.push(format!(
                "impl vstd::std_specs::cmp::PartialEqSpecImpl for {ident} {{\n    open spec fn obeys_eq_spec() -> bool {{ true }}\n    open spec fn eq_spec(&self, other: &{ident}) -> bool {{ *self == *other }}\n}}\nimpl PartialEq for {ident} {{\n    #[verifier::external_body]\n    fn eq(&self, other: &{ident}) -> (b: bool)\n        ensures b == (*self == *other),\n    {{ unimplemented!() }}\n}}")),
            "@gen:Eq" => out.push(format!("impl Eq for {ident} {{}}")),
            "@gen:Default" => {
                if let Some(de) = &default_expr {
                    out.push(format!(
                        "impl VxDefault for {ident} {{\n    open spec fn vx_default() -> Self {{ {de} }}\n}}\nimpl Default for {ident} {{\n    #[verifier::external_body]\n    fn default() -> (r: Self)\n        ensures r == <{ident} as VxDefault>::vx_default(),\n    {{ unimplemented!() }}\n}}"));
                }
            }
            _ => {}
        }
    }
    out
}

fn process_unit(job: &Job, ctx: &Ctx, u: &UnitReq, uidx: usize, vac: bool) -> UnitOut {
    let mut out = UnitOut { name: u.name.clone(), src_file: u.file.clone(), ..Default::default() };
    let full = format!("{}/{}", job.repo, u.file);
    let src = match std::fs::read_to_string(&full) {
        Ok(s) => s,
        Err(e) => {
            out.error = Some(format!("lost-anchor: cannot read {}: {}", full, e));
            return out;
        }
    };
    let file = match syn::parse_file(&src) {
        Ok(f) => f,
        Err(e) => {
            out.error = Some(format!("unsupported-construct: cannot parse {}: {}", full, e));
            return out;
        }
    };
    let keep: Vec<String> = u.derive_keep.clone().unwrap_or_else(|| vec!["Clone".into(), "Copy".into(), "PartialEq".into(), "Eq".into(), "Default".into()]);
    let mut subs: Vec<(String, String, String)> = vec![];
    let default_spec = FnSpec::default();
    let mut pre = String::new();
    for a in &u.pre_attrs {
        pre.push_str(&format!("#[{}]\n", a));
    }
    let text: String;
    let mut post_text = String::new();
    match u.kind.as_str() {
        "fn" | "item" => {
            let (modpath, name) = u.path.split_at(u.path.len() - 1);
            let items = match find_module_items(&file.items, modpath) {
                Some(i) => i,
                None => {
                    out.error = Some(format!("lost-anchor: module {} not found in {}", modpath.join("::"), u.file));
                    return out;
                }
            };
            let found = items.iter().find(|it| !is_cfg_test_item(it) && item_ident(it).as_deref() == Some(name[0].as_str()));
            let it = match found {
                Some(i) => i,
                None => {
                    out.error = Some(format!("lost-anchor: item {} not found in {}", u.path.join("::"), u.file));
                    return out;
                }
            };
            out.src_line_start = line_of(it);
            out.src_line_end = syn::spanned::Spanned::span(it).end().line;
            let mut it = it.clone();
            if u.raw {
                if let Item::Fn(f) = &mut it {
                    f.attrs.retain(|a| !a.path().is_ident("doc"));
                    f.vis = parse_quote!(pub(crate));
                }
                out.rewrites.push(RewriteLog { rule: "R0".into(), line: out.src_line_start, detail: "item emitted verbatim (visibility pub(crate))".into() });
                match rustfmt(&it.to_token_stream().to_string()) {
                    Ok(t) => out.text = t,
                    Err(e) => out.error = Some(format!("unsupported-construct: {}", e)),
                }
                return out;
            }
            if let Item::Fn(f) = &mut it {
                let spec = u.fns.get(&f.sig.ident.to_string()).or_else(|| u.fns.values().next()).unwrap_or(&default_spec);
                let vspec;
                let spec = if vac { vspec = vac_spec(spec); &vspec } else { spec };
                if vac {
                    f.sig.ident = syn::Ident::new(&format!("{}__vxvac", f.sig.ident), proc_macro2::Span::call_site());
                }
                let uid = format!("{}{}", if vac { "v" } else { "u" }, uidx);
                if !matches!(f.vis, syn::Visibility::Public(_)) {
                    f.vis = parse_quote!(pub);
                    out.rewrites.push(RewriteLog { rule: "R21".into(), line: line_of(&f.sig), detail: "visibility widened to pub".into() });
                }
                if u.fragments_only {
                    // R25 on a function that is itself NOT under contract: only the outlined fragments are
                    // emitted (verbatim, each as a helper fn verified against its own contract); the rest of
                    // the function is dropped and stays unverified.
                    let mut texts: Vec<String> = vec![];
                    for (oi, ol) in spec.outlines.iter().enumerate() {
                        let call: Expr = match syn::parse_str(&ol.call) {
                            Ok(c) => c,
                            Err(e) => { out.error = Some(format!("outline {} call unparsable: {}", ol.name, e)); continue; }
                        };
                        let found = if let Some(pat) = ol.original.trim().strip_prefix("@scrutinee ") {
                            let mut o = ScrutineeOutliner { pat: norm_str(pat).unwrap_or_default(), call, found: None };
                            o.visit_block_mut(&mut f.block);
                            o.found
                        } else {
                            let mut o = Outliner { target: norm_str(&ol.original).unwrap_or_default(), call, found: None };
                            o.visit_block_mut(&mut f.block);
                            o.found
                        };
                        let mut orig = match found {
                            None => {
                                let e = format!("lost-anchor: outlined fragment {} not found in {}", ol.name, f.sig.ident);
                                out.error = Some(match out.error.take() { Some(x) => format!("{}; {}", x, e), None => e });
                                continue;
                            }
                            Some(orig) => orig,
                        };
                        out.rewrites.push(RewriteLog { rule: "R25".into(), line: line_of(&orig), detail: format!("fragment of {} (a function not under contract) emitted verbatim as helper fn {} (verified against its own contract); everything else in that function is dropped", f.sig.ident, ol.name) });
                        if !ol.subst.is_empty() {
                            let mut tt = norm_m(&orig.to_token_stream());
                            for (a, b) in &ol.subst {
                                tt = subst_norm(&tt, &norm_str(a).unwrap_or_default(), b);
                            }
                            match syn::parse_str::<Expr>(&tt) {
                                Ok(e) => { orig = e; }
                                Err(e) => { out.error = Some(format!("outline {} substitution unparsable: {}", ol.name, e)); continue; }
                            }
                        }
                        match syn::parse_str::<syn::ItemFn>(&format!("pub {} {{ }}", ol.header)) {
                            Ok(mut hf) => {
                                let hspec = u.fns.get(&ol.name).unwrap_or(&default_spec);
                                let vhspec;
                                let hspec = if vac { vhspec = vac_spec(hspec); &vhspec } else { hspec };
                                if vac {
                                    hf.sig.ident = syn::Ident::new(&format!("{}__vxvac", hf.sig.ident), proc_macro2::Span::call_site());
                                }
                                hf.block.stmts.push(Stmt::Expr(orig, None));
                                let huid = format!("{}o{}", uid, oi);
                                process_fn(ctx, u, &huid, &mut hf.attrs, &mut hf.sig, &mut hf.block, hspec, &mut out, &mut subs);
                                texts.push(hf.to_token_stream().to_string());
                            }
                            Err(e) => { out.error = Some(format!("outline {} header unparsable: {}", ol.name, e)); }
                        }
                    }
                    text = texts.join("\n");
                } else {
                process_fn(ctx, u, &uid, &mut f.attrs, &mut f.sig, &mut f.block, spec, &mut out, &mut subs);
                text = f.to_token_stream().to_string();
                }
            } else {
                // R1: variants carrying thiserror's #[from] (collected before attributes are dropped)
                let mut from_variants: Vec<String> = vec![];
                if let Item::Enum(en) = &it {
                    for v in en.variants.iter() {
                        let has = v.fields.iter().any(|f| f.attrs.iter().any(|a| a.path().is_ident("from")));
                        if has && v.fields.len() == 1 {
                            from_variants.push(v.ident.to_string());
                        }
                    }
                }
                let mut extra = clean_type_item(&mut it, &keep, &mut out.rewrites, &u.drop_fields);
                // path renames inside type declarations
                let mut rw = Rewriter {
                    expr_map: &ctx.expr_map,
            type_map: &ctx.type_map,
                    spec: &default_spec,
                    renames: &ctx.renames,
                    macro_map: ctx.macro_map,
                    log: vec![],
                    errors: vec![],
                    hint_seen: vec![],
                    hint_placed: vec![],
                    pin_used: vec![],
                    pins_norm: vec![],
                    fn_marker: String::new(),
                    uid: String::new(),
                    brk_counter: 0,
            synth: vec![],
            intoiter_params: vec![],
            fmt_helpers: vec![],
            pinned: vec![],
            pending_lets: vec![],
            pred_counter: 0,
                };
                match &mut it {
                    Item::Struct(s) => { rw.visit_fields_mut(&mut s.fields); rw.visit_generics_mut(&mut s.generics); }
                    Item::Enum(s) => { for v in s.variants.iter_mut() { rw.visit_fields_mut(&mut v.fields); } }
                    Item::Const(c) => { rw.visit_type_mut(&mut c.ty); rw.visit_expr_mut(&mut c.expr); }
                    Item::Type(t) => rw.visit_type_mut(&mut t.ty),
                    Item::Trait(t) => {
                        for ti in t.items.iter_mut() {
                            match ti {
                                syn::TraitItem::Fn(f) => rw.visit_signature_mut(&mut f.sig),
                                syn::TraitItem::Type(ty) => { for b in ty.bounds.iter_mut() { rw.visit_type_param_bound_mut(b); } }
                                _ => {}
                            }
                        }
                    }
                    _ => {}
                }
                out.rewrites.extend(rw.log);
                if let Item::Enum(en) = &it {
                    for v in en.variants.iter() {
                        if from_variants.contains(&v.ident.to_string()) {
                            let ty = v.fields.iter().next().unwrap().ty.to_token_stream().to_string();
                            let en_id = &en.ident;
                            let vid = &v.ident;
                            extra.push(format!(
                                "impl vstd::std_specs::convert::FromSpecImpl<{ty}> for {en_id} {{\n    open spec fn obeys_from_spec() -> bool {{ true }}\n    open spec fn from_spec(e: {ty}) -> Self {{ {en_id}::{vid}(e) }}\n}}\nimpl From<{ty}> for {en_id} {{\n    fn from(e: {ty}) -> (r: Self)\n        ensures r == {en_id}::{vid}(e),\n    {{ {en_id}::{vid}(e) }}\n}}"
                            ));
                            out.rewrites.push(RewriteLog { rule: "R1".into(), line: line_of(v), detail: format!("thiserror #[from] on {}::{} -> generated From + FromSpecImpl", en_id, vid) });
                        }
                    }
                }
                let gens: Vec<String> = extra.iter().filter(|e| e.starts_with("@gen:")).cloned().collect();
                let mut extra: Vec<String> = extra.into_iter().filter(|e| !e.starts_with("@gen:")).collect();
                let generated = gen_derive_impls(&mut it, &gens);
                extra.splice(0..0, generated);
                text = it.to_token_stream().to_string();
                for e in extra {
                    post_text.push_str("\n");
                    post_text.push_str(&e);
                }
            }
        }
        "method" | "impl" => {
            let items = match find_module_items(&file.items, &u.path) {
                Some(i) => i,
                None => {
                    out.error = Some(format!("lost-anchor: module {} not found in {}", u.path.join("::"), u.file));
                    return out;
                }
            };
            let want_self = u.self_ty.as_deref().map(|s| norm_str(s).unwrap_or_default()).unwrap_or_default();
            let want_trait = u.trait_.as_deref().map(|s| norm_str(s).unwrap_or_default());
            let mut chosen: Option<syn::ItemImpl> = None;
            for it in items {
                if let Item::Impl(im) = it {
                    if is_cfg_test(&im.attrs) {
                        continue;
                    }
                    let st = norm(&im.self_ty.to_token_stream());
                    let tr = im.trait_.as_ref().map(|(_, p, _)| norm(&p.to_token_stream()));
                    if st != want_self || tr != want_trait {
                        continue;
                    }
                    if let Some(m) = &u.method {
                        let has = im.items.iter().any(|ii| matches!(ii, ImplItem::Fn(f) if f.sig.ident == m));
                        if !has {
                            continue;
                        }
                    }
                    chosen = Some(im.clone());
                    break;
                }
            }
            // R33: provided (default) methods of a trait `Tr: Super` are emitted as the blanket impl
            // `impl<VxSelf: Super> Tr for VxSelf { fn m(..) { <default body> } .. }` (what every implementor runs)
            if chosen.is_none() && want_trait.is_none() {
                for it in items {
                    if let Item::Trait(tr) = it {
                        if norm(&tr.ident.to_token_stream()) != want_self {
                            continue;
                        }
                        let tid = &tr.ident;
                        let sup = &tr.supertraits;
                        let mut synth: syn::ItemImpl = parse_quote!(impl<VxSelf: #sup> #tid for VxSelf {});
                        for ti in tr.items.iter() {
                            if let syn::TraitItem::Fn(tf) = ti {
                                let name = tf.sig.ident.to_string();
                                let wanted = match (&u.method, &u.only_methods) {
                                    (Some(m), _) => &name == m,
                                    (None, Some(list)) => list.contains(&name),
                                    (None, None) => true,
                                };
                                if !wanted {
                                    continue;
                                }
                                if let Some(body) = &tf.default {
                                    let mut fsig = tf.sig.clone();
                                    let mut fblock = body.clone();
                                    if u.hoist {
                                        // R36: `fn m(&self, ..) -> [Local]BoxFuture<'a, T> { async move { B }.boxed[_local]() }`
                                        // -> free `async fn m<VxSelf: Super, ..>(vx_self: &VxSelf, ..) -> T { B }` (self renamed)
                                        match async_block_body(&fblock, &fsig) {
                                            Some((inner, out_ty)) => {
                                                struct SelfRen;
                                                impl VisitMut for SelfRen {
                                                    fn visit_item_mut(&mut self, _i: &mut Item) {}
                                                    fn visit_expr_path_mut(&mut self, p: &mut syn::ExprPath) {
                                                        if p.path.is_ident("self") {
                                                            p.path = parse_quote!(vx_self);
                                                        }
                                                    }
                                                }
                                                fblock = inner;
                                                SelfRen.visit_block_mut(&mut fblock);
                                                let recv = match fsig.inputs.first() { Some(syn::FnArg::Receiver(r)) => Some(r.clone()), _ => None };
                                                if let Some(r) = recv {
                                                    let lt = r.reference.as_ref().and_then(|(_, l)| l.clone());
                                                    let m = r.mutability;
                                                    let newarg: syn::FnArg = match (&lt, m.is_some()) {
                                                        (Some(l), true) => parse_quote!(vx_self: &#l mut VxSelf),
                                                        (Some(l), false) => parse_quote!(vx_self: &#l VxSelf),
                                                        (None, true) => parse_quote!(vx_self: &mut VxSelf),
                                                        (None, false) => parse_quote!(vx_self: &VxSelf),
                                                    };
                                                    let rest: Vec<syn::FnArg> = fsig.inputs.iter().skip(1).cloned().collect();
                                                    fsig.inputs = std::iter::once(newarg).chain(rest.into_iter()).collect();
                                                }
                                                fsig.generics.params.push(parse_quote!(VxSelf: #sup));
                                                fsig.asyncness = Some(Default::default());
                                                fsig.output = parse_quote!(-> #out_ty);
                                                out.rewrites.push(RewriteLog { rule: "R36".into(), line: line_of(&tf.sig), detail: format!("{}::{}: body `async move {{ .. }}.boxed()` emitted as a free async fn over any implementor (self -> vx_self)", tid, name) });
                                            }
                                            None => {
                                                out.error = Some(format!("unsupported-construct: {}::{} is not of the form `async move {{ .. }}.boxed[_local]()`", tid, name));
                                            }
                                        }
                                    }
                                    synth.items.push(ImplItem::Fn(syn::ImplItemFn {
                                        attrs: tf.attrs.clone(),
                                        vis: syn::Visibility::Inherited,
                                        defaultness: None,
                                        sig: fsig,
                                        block: fblock,
                                    }));
                                    out.rewrites.push(RewriteLog { rule: "R33".into(), line: line_of(&tf.sig), detail: format!("provided method {}::{} emitted in the blanket impl for every implementor of its supertraits", tid, name) });
                                }
                            }
                        }
                        if !synth.items.is_empty() {
                            chosen = Some(synth);
                        }
                    }
                }
            }
            let mut im = match chosen {
                Some(i) => i,
                None => {
                    out.error = Some(format!(
                        "lost-anchor: impl {}{} {} not found in {}",
                        u.trait_.clone().map(|t| format!("{} for ", t)).unwrap_or_default(),
                        u.self_ty.clone().unwrap_or_default(),
                        u.method.clone().map(|m| format!("(method {})", m)).unwrap_or_default(),
                        u.file
                    ));
                    return out;
                }
            };
            im.attrs.retain(|a| !is_doc_or_dropped_attr(a));
            let mut kept_items: Vec<ImplItem> = vec![];
            let mut extra_fns: Vec<syn::ItemFn> = vec![];
            let mut fidx = 0usize;
            let mut first_line = usize::MAX;
            let mut last_line = 0usize;
            for ii in im.items.iter() {
                match ii {
                    ImplItem::Fn(f) => {
                        let name = f.sig.ident.to_string();
                        let selected = match (&u.method, &u.only_methods) {
                            (Some(m), _) => &name == m,
                            (None, Some(list)) => list.contains(&name),
                            (None, None) => true,
                        };
                        if !selected {
                            continue;
                        }
                        first_line = first_line.min(line_of(f));
                        last_line = last_line.max(syn::spanned::Spanned::span(f).end().line);
                        let mut f = f.clone();
                        let spec = u.fns.get(&name).unwrap_or(&default_spec);
                        let vspec;
                        let spec = if vac { vspec = vac_spec(spec); &vspec } else { spec };
                        if vac {
                            f.sig.ident = syn::Ident::new(&format!("{}__vxvac", f.sig.ident), proc_macro2::Span::call_site());
                        }
                        let uid = format!("{}{}f{}", if vac { "v" } else { "u" }, uidx, fidx);
                        fidx += 1;
                        if im.trait_.is_none() && !matches!(f.vis, syn::Visibility::Public(_)) {
                            f.vis = parse_quote!(pub);
                            out.rewrites.push(RewriteLog { rule: "R21".into(), line: line_of(&f.sig), detail: "visibility widened to pub".into() });
                        }
                        for (oi, ol) in spec.outlines.iter().enumerate() {
                            let call: Expr = match syn::parse_str(&ol.call) {
                                Ok(c) => c,
                                Err(e) => { out.error = Some(format!("outline {} call unparsable: {}", ol.name, e)); continue; }
                            };
                            let mut o = Outliner { target: norm_str(&ol.original).unwrap_or_default(), call, found: None };
                            o.visit_block_mut(&mut f.block);
                            match o.found {
                                None => {
                                    let e = format!("lost-anchor: outlined fragment {} not found in {}", ol.name, name);
                                    out.error = Some(match out.error.take() { Some(x) => format!("{}; {}", x, e), None => e });
                                }
                                Some(orig) => {
                                    out.rewrites.push(RewriteLog { rule: "R25".into(), line: line_of(&orig), detail: format!("fragment outlined verbatim into helper fn {} (verified against its own contract)", ol.name) });
                                    let mut orig = orig;
                                    if !ol.subst.is_empty() {
                                        let mut t = norm_m(&orig.to_token_stream());
                                        for (a, b) in &ol.subst {
                                            t = subst_norm(&t, &norm_str(a).unwrap_or_default(), b);
                                        }
                                        match syn::parse_str::<Expr>(&t) {
                                            Ok(e) => { orig = e; }
                                            Err(e) => { out.error = Some(format!("outline {} substitution unparsable: {}", ol.name, e)); continue; }
                                        }
                                        out.rewrites.push(RewriteLog { rule: "R25".into(), line: 0, detail: format!("helper {} receives {}", ol.name, ol.subst.iter().map(|(a, b)| format!("`{}` as `{}`", a, b)).collect::<Vec<_>>().join(", ")) });
                                    }
                                    if !vac {
                                        match syn::parse_str::<syn::ItemFn>(&format!("pub {} {{ }}", ol.header)) {
                                            Ok(mut hf) => {
                                                let hspec = u.fns.get(&ol.name).unwrap_or(&default_spec);
                                                if hspec.tail_assume.is_some() && !hspec.external_body {
                                                    let rn = syn::Ident::new(hspec.ret.as_deref().unwrap_or("r"), proc_macro2::Span::call_site());
                                                    let mk = syn::Ident::new(&format!("__vxhint_u{}f{}o{}_ta", uidx, fidx, oi), proc_macro2::Span::call_site());
                                                    let rty: syn::Type = match &hf.sig.output {
                                                        syn::ReturnType::Default => parse_quote!(()),
                                                        syn::ReturnType::Type(_, t) => (**t).clone(),
                                                    };
                                                    hf.block.stmts.push(parse_quote!(let #rn: #rty = #orig;));
                                                    hf.block.stmts.push(parse_quote!(#mk!{};));
                                                    hf.block.stmts.push(Stmt::Expr(parse_quote!(#rn), None));
                                                    subs.push(("hint".into(), format!("__vxhint_u{}f{}o{}_ta", uidx, fidx, oi),
                                                        format!("proof {{\n    // ASSUMED (std iterator-adapter semantics, not specified by vstd):\n    assume({});\n}}", hspec.tail_assume.clone().unwrap().trim().trim_end_matches(','))));
                                                } else {
                                                    hf.block.stmts.push(Stmt::Expr(orig, None));
                                                }
                                                let huid = format!("u{}f{}o{}", uidx, fidx, oi);
                                                process_fn(ctx, u, &huid, &mut hf.attrs, &mut hf.sig, &mut hf.block, hspec, &mut out, &mut subs);
                                                extra_fns.push(hf);
                                            }
                                            Err(e) => { out.error = Some(format!("outline {} header unparsable: {}", ol.name, e)); }
                                        }
                                    }
                                }
                            }
                        }
                        process_fn(ctx, u, &uid, &mut f.attrs, &mut f.sig, &mut f.block, spec, &mut out, &mut subs);
                        kept_items.push(ImplItem::Fn(f));
                    }
                    ImplItem::Type(t) => {
                        if u.kind == "impl" {
                            let mut t = t.clone();
                            t.attrs.retain(|a| !is_doc_or_dropped_attr(a));
                            kept_items.push(ImplItem::Type(t));
                        }
                    }
                    ImplItem::Const(c) => {
                        if u.kind == "impl" {
                            let mut c = c.clone();
                            c.attrs.retain(|a| !is_doc_or_dropped_attr(a));
                            kept_items.push(ImplItem::Const(c));
                        }
                    }
                    _ => {}
                }
            }
            if fidx == 0 && u.kind == "method" {
                out.error = Some(format!("lost-anchor: method {:?} not found", u.method));
                return out;
            }
            out.src_line_start = if first_line == usize::MAX { line_of(&im) } else { first_line };
            out.src_line_end = if last_line == 0 { syn::spanned::Spanned::span(&im).end().line } else { last_line };
            im.items = kept_items;
            // renames in the impl header
            let mut rw = Rewriter {
                expr_map: &ctx.expr_map,
            type_map: &ctx.type_map,
                spec: &default_spec,
                renames: &ctx.renames,
                macro_map: ctx.macro_map,
                log: vec![],
                errors: vec![],
                hint_seen: vec![],
                hint_placed: vec![],
                pin_used: vec![],
                pins_norm: vec![],
                fn_marker: String::new(),
                uid: String::new(),
                brk_counter: 0,
            synth: vec![],
            intoiter_params: vec![],
            fmt_helpers: vec![],
            pinned: vec![],
            pending_lets: vec![],
            pred_counter: 0,
            };
            rw.visit_generics_mut(&mut im.generics);
            rw.visit_type_mut(&mut im.self_ty);
            if let Some((_, p, _)) = &mut im.trait_ {
                rw.visit_path_mut(p);
            }
            for ii in im.items.iter_mut() {
                if let ImplItem::Type(t) = ii {
                    rw.visit_type_mut(&mut t.ty);
                }
            }
            out.rewrites.extend(rw.log);
            let mut t = String::new();
            if u.hoist {
                for ii in im.items.iter() {
                    if let ImplItem::Fn(f) = ii {
                        let attrs = &f.attrs;
                        let sig = &f.sig;
                        let block = &f.block;
                        t.push_str(&quote!(#(#attrs)* pub #sig #block).to_string());
                        t.push('\n');
                        out.rewrites.push(RewriteLog { rule: "R24".into(), line: line_of(&f.sig), detail: format!("associated fn {} (uses no impl generics) emitted as a free fn", f.sig.ident) });
                    }
                }
            } else {
                t = im.to_token_stream().to_string();
            }
            for hf in extra_fns {
                t.push('\n');
                t.push_str(&hf.to_token_stream().to_string());
            }
            text = t;
        }
        other => {
            out.error = Some(format!("unknown unit kind {}", other));
            return out;
        }
    }
    let formatted = match rustfmt(&text) {
        Ok(t) => t,
        Err(e) => {
            out.error = Some(format!("unsupported-construct: {}", e));
            return out;
        }
    };
    let formatted = fix_vxret(&formatted);
    match apply_subs(&formatted, &subs) {
        Ok(t) => out.text = format!("{}{}{}", pre, t, post_text),
        Err(e) => {
            out.error = Some(match out.error.take() { Some(x) => format!("{}; {}", x, e), None => e });
            out.text = formatted;
        }
    }
    out
}

/// spec text of the vacuity twin: same contract plus `ensures false`; obligation markers removed.
fn vac_spec(s: &FnSpec) -> FnSpec {
    let mut v = s.clone();
    let text = s.spec.clone().unwrap_or_default().replace("/*@ob", "/*@vac");
    let mut out = String::new();
    let mut done = false;
    for l in text.lines() {
        let t = l.trim_start();
        if !done && (t == "ensures" || t.starts_with("ensures ") || t.starts_with("ensures\t")) {
            out.push_str("ensures\n    false,\n");
            let rest = t["ensures".len()..].trim();
            if !rest.is_empty() {
                out.push_str(rest);
                out.push('\n');
            }
            done = true;
            continue;
        }
        if !done && (t.starts_with("decreases") || t.starts_with("opens_invariants") || t.starts_with("no_unwind")) {
            out.push_str("ensures\n    false,\n");
            done = true;
        }
        out.push_str(l);
        out.push('\n');
    }
    if !done {
        // make sure a preceding requires list is comma terminated
        let trimmed = out.trim_end().to_string();
        out = trimmed;
        if !out.is_empty() && !out.ends_with(',') {
            out.push(',');
        }
        out.push_str("\nensures\n    false,\n");
    }
    v.spec = Some(out);
    v
}

fn is_cfg_test_item(it: &Item) -> bool {
    match it {
        Item::Fn(f) => is_cfg_test(&f.attrs),
        Item::Mod(f) => is_cfg_test(&f.attrs),
        Item::Struct(f) => is_cfg_test(&f.attrs),
        Item::Enum(f) => is_cfg_test(&f.attrs),
        Item::Impl(f) => is_cfg_test(&f.attrs),
        _ => false,
    }
}

/// Identity self-test: extracting an item with every rule disabled and re-parsing the formatted
/// text must give back the source token stream.
fn identity_check(job: &Job, u: &UnitReq) -> Option<bool> {
    if u.kind != "fn" {
        return None;
    }
    let full = format!("{}/{}", job.repo, u.file);
    let src = std::fs::read_to_string(&full).ok()?;
    let file = syn::parse_file(&src).ok()?;
    let (modpath, name) = u.path.split_at(u.path.len() - 1);
    let items = find_module_items(&file.items, modpath)?;
    let it = items.iter().find(|it| !is_cfg_test_item(it) && item_ident(it).as_deref() == Some(name[0].as_str()))?;
    let mut it2 = it.clone();
    if let Item::Fn(f) = &mut it2 {
        f.attrs.clear();
    }
    let mut it1 = it.clone();
    if let Item::Fn(f) = &mut it1 {
        f.attrs.clear();
    }
    let txt = rustfmt(&it2.to_token_stream().to_string()).ok()?;
    let re: Item = syn::parse_str(&txt).ok()?;
    Some(norm(&re.to_token_stream()) == norm(&it1.to_token_stream()))
}

fn main() {
    let mut input = String::new();
    std::io::stdin().read_to_string(&mut input).unwrap();
    let job: Job = match serde_json::from_str(&input) {
        Ok(j) => j,
        Err(e) => {
            eprintln!("vx: bad job json: {}", e);
            std::process::exit(3);
        }
    };
    let renames: Vec<(Vec<String>, Vec<String>)> = job
        .renames
        .iter()
        .map(|(a, b)| {
            (
                a.split("::").filter(|s| !s.is_empty()).map(|s| s.to_string()).collect(),
                b.split("::").filter(|s| !s.is_empty()).map(|s| s.to_string()).collect(),
            )
        })
        .collect();
    let expr_map: Vec<(String, String)> = job.expr_map.iter().map(|(a, b)| (norm_str(a).unwrap_or_default(), b.clone())).collect();
    let type_map: Vec<(String, String)> = job.type_map.iter().map(|(a, b)| (norm_str(a).unwrap_or_default(), b.clone())).collect();
    let ctx = Ctx { renames, macro_map: &job.macro_map, expr_map, type_map };
    let mut outs = vec![];
    for (i, u) in job.units.iter().enumerate() {
        let mut o = process_unit(&job, &ctx, u, i, false);
        o.identity_ok = identity_check(&job, u);
        if u.vac && (u.kind == "fn" || u.kind == "method") && o.error.is_none() {
            let v = process_unit(&job, &ctx, u, i, true);
            if v.error.is_none() {
                o.text_vac = v.text;
            }
        }
        outs.push(o);
    }
    let _ = quote!();
    println!("{}", serde_json::to_string_pretty(&outs).unwrap());
}
