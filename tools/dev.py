#!/usr/bin/env python3
"""dev.py <group> <function-pattern> [--expand]: regenerate one group and verify only the matching function(s); print errors."""
import sys, os, subprocess, json, re
sys.path.insert(0, os.path.dirname(os.path.abspath(__file__)))
import vxlib
g = next(g for g in vxlib.load_groups() if g["name"] == sys.argv[1])
outs = vxlib.run_vx(g)
errs = [(n, o["error"]) for n, o in outs.items() if o.get("error")]
if errs:
    print("EXTRACT ERRORS", errs); sys.exit(2)
os.makedirs(vxlib.GEN, exist_ok=True)
text, lm = vxlib.assemble(g, outs)
path = os.path.join(vxlib.GEN, g["name"] + ".rs")
open(path, "w").write(text)
cmd = ["verus", path, "--triggers-mode", "silent", "--multiple-errors", "30", "--rlimit", "60", "--verify-only-module", "units", "--verify-function", sys.argv[2]]
if "--expand" in sys.argv: cmd.append("--expand-errors")
p = subprocess.run(cmd, capture_output=True, text=True)
out = p.stderr
# compact printing: error header + first location + up to 6 lines
blocks = re.split(r"\n(?=error)", out)
for b in blocks:
    lines = b.split("\n")
    print("\n".join(lines[: (40 if "--expand" in sys.argv else 14)]))
    print("   ...")
print(p.stdout[-300:])
