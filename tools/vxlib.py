#!/usr/bin/env python3
"""Shared machinery for /verif/check: vspec parsing, extraction (vx), assembly, Verus runs,
classification of failed obligations, evidence writing.  See DESIGN.md sections 2 and 3."""
import hashlib
import json
import os
import re
import subprocess
import sys
import time

VERIF = os.path.dirname(os.path.dirname(os.path.abspath(__file__)))
REPO = os.environ.get("VERIF_REPO", "/repo")
CACHE = os.path.join(VERIF, ".cache")
# VERIF_OUT redirects everything a run writes except the shared result cache (used by
# tools/seedmatrix.py to run several scratch trees side by side); default: /verif itself
OUT = os.environ.get("VERIF_OUT", VERIF)
GEN = os.path.join(OUT, ".cache", "gen")
VX = os.path.join(VERIF, "tools", "vx", "target", "release", "vx")
OB_RE = re.compile(r"/\*@ob ([A-Za-z0-9_.,\- ]+?)\*/")


class Undecided(Exception):
    def __init__(self, reason, detail=""):
        super().__init__(reason + ": " + detail)
        self.reason = reason
        self.detail = detail


# ----------------------------------------------------------------------------------------
# vspec parsing
# ----------------------------------------------------------------------------------------
def parse_vspec(path):
    g = {"name": os.path.basename(path)[:-6], "path": path, "prelude": [], "lemmas": [], "renames": [],
         "exprmap": [], "macro_map": {}, "units": [], "uses": [], "broadcast": [], "raw": [], "includes": [], "typemap": [], "bcast_extra": []}
    unit = None
    cur = None  # (target_list_or_dict, key) accumulating text
    buf = []

    def flush():
        nonlocal cur, buf
        if cur is not None:
            text = "\n".join(buf).rstrip() + "\n"
            kind = cur[0]
            if kind == "spec":
                fnspec(unit, cur[1])["spec"] = text
            elif kind == "assume_std":
                fnspec(unit, cur[1])["tail_assume"] = text
            elif kind == "loop":
                fnspec(unit, cur[2])["loops"][cur[1]] = text
            elif kind == "closure":
                fnspec(unit, cur[2])["closures"][cur[1]] = text
            elif kind == "hint":
                fnspec(unit, cur[4])["hints"].append({"pos": cur[1], "nth": cur[2], "anchor": cur[3], "text": text})
            elif kind == "pin":
                parts = text.split("\n==>\n")
                if len(parts) != 2:
                    raise SystemExit(f"{path}: @@pin needs 'original' ==> 'replacement' sections")
                fnspec(unit, cur[2])["pins"].append({"original": parts[0].strip(), "replacement": parts[1].strip(), "stmt": cur[1]})
            elif kind == "outline":
                parts = text.split("\n==>\n")
                if len(parts) != 2:
                    raise SystemExit(f"{path}: @@outline needs 'original' ==> 'call' sections")
                subst = []
                olines = []
                for l in parts[0].split("\n"):
                    ms = re.match(r"^@subst\s+(.*?)\s+=>\s+(\S+)\s*$", l)
                    if ms:
                        subst.append([ms.group(1), ms.group(2)])
                    else:
                        olines.append(l)
                fnspec(unit, cur[3]).setdefault("outlines", []).append({"name": cur[1], "header": cur[2], "original": "\n".join(olines).strip(), "call": parts[1].strip(), "subst": subst})
            elif kind == "raw":
                g["raw"].append({"text": text, "after_unit": unit["name"] if unit else None, "props": cur[1]})
            elif kind == "unit_raw":
                unit["raw_text"] = text
        cur = None
        buf = []

    def fnspec(u, fn):
        if fn is None:
            fn = u.get("default_fn") or "_"
        return u["fns"].setdefault(fn, {"loops": {}, "closures": {}, "hints": [], "tries": {}, "pins": [], "attrs": []})

    for ln, line in enumerate(open(path).read().split("\n"), 1):
        if line.startswith("@@"):
            flush()
            parts = line[2:].split(None, 1)
            d = parts[0]
            arg = parts[1].strip() if len(parts) > 1 else ""
            if d == "group":
                g["name"] = arg
            elif d == "prelude":
                g["prelude"] += arg.split()
            elif d == "lemmas":
                g["lemmas"] += arg.split()
            elif d == "import":
                # @@import group:unit [unit...]  -> the unit's contract, taken verbatim from the other group,
                # is *assumed* here (external_body); it is proved where it is defined.
                grp, first = arg.split()[0].split(":")
                for un in [first] + arg.split()[1:]:
                    g["units"].append({"import": (grp, un), "name": un, "kind": "import", "props": [], "fns": {}})
                unit = None
            elif d == "trusted_include":
                g["includes"] += arg.split()
            elif d.startswith("#"):
                pass
            elif d == "rename":
                a, b = arg.split("=>")
                g["renames"].append((a.strip(), b.strip()))
            elif d == "exprmap":
                a, b = arg.split("=>")
                g["exprmap"].append((a.strip(), b.strip()))
            elif d == "broadcast_use":
                g["bcast_extra"].append(arg)
            elif d == "typemap":
                a, b = arg.split("=>")
                g["typemap"].append((a.strip(), b.strip()))
            elif d == "macro":
                a, b = arg.split("=>")
                g["macro_map"][a.strip()] = b.strip()
            elif d == "unit":
                unit = {"name": arg.split()[0], "props": [], "fns": {}, "kind": None, "emit_mod": None, "line": ln,
                        "novac": False}
                g["units"].append(unit)
            elif d == "props":
                unit["props"] = arg.split()
            elif d == "src":
                unit["file"] = arg
            elif d == "emit_mod":
                unit["emit_mod"] = arg
            elif d == "novac":
                unit["novac"] = arg or True
            elif d == "fn":
                unit["kind"] = "fn"
                unit["path"] = arg.split("::")
                unit["default_fn"] = unit["path"][-1]
            elif d == "item":
                unit["kind"] = "item"
                unit["path"] = arg.split("::")
            elif d == "method":
                # @@method [mod::path ::] SelfTy :: name      (self type may contain generics)
                m = re.match(r"^(?:in (\S+)\s+)?(.*)\s::\s(\w+)$", arg)
                if not m:
                    raise SystemExit(f"{path}:{ln}: @@method syntax: [in mod::path] <SelfTy> :: <name>")
                unit["kind"] = "method"
                unit["path"] = m.group(1).split("::") if m.group(1) else []
                unit["self_ty"] = m.group(2).strip()
                unit["method"] = m.group(3)
                unit["default_fn"] = m.group(3)
            elif d == "impl":
                m = re.match(r"^(?:in (\S+)\s+)?(?:(.*)\sfor\s)?(.*)$", arg)
                unit["kind"] = "impl"
                unit["path"] = m.group(1).split("::") if m.group(1) else []
                unit["trait"] = m.group(2).strip() if m.group(2) else None
                unit["self_ty"] = m.group(3).strip()
            elif d == "only_methods":
                unit["only_methods"] = arg.split()
            elif d == "derive_keep":
                unit["derive_keep"] = arg.split()
            elif d == "drop_fields":
                unit["drop_fields"] = arg.split()
            elif d == "pre_attr":
                unit.setdefault("pre_attrs", []).append(arg)
            elif d == "ret":
                a = arg.split()
                fnspec(unit, a[1] if len(a) > 1 else None)["ret"] = a[0]
            elif d == "attr":
                m = re.match(r"^(.*?)(?:\s+@(\w+))?$", arg)
                fnspec(unit, m.group(2))["attrs"].append(m.group(1).strip())
            elif d == "external_body":
                fnspec(unit, arg or None)["external_body"] = True
            elif d == "hoist":
                unit["hoist"] = True
            elif d == "fragments_only":
                unit["fragments_only"] = True
            elif d == "outline":
                # @@outline <helper fn header>   e.g.  @@outline fn vx_o_x(response: &Response) -> Vec<&response::App>
                # optional [fn=origin] prefix selects the fn of an impl unit
                m = re.match(r"^(?:fn=(\S+)\s+)?(.*)$", arg)
                hdr = m.group(2).strip()
                nm = re.match(r"^(?:async\s+)?fn\s+(\w+)", hdr).group(1)
                cur = ("outline", nm, hdr, m.group(1))
            elif d == "self_mut":
                fnspec(unit, arg or None)["self_mut"] = True
            elif d == "try":
                a = arg.split()
                fnspec(unit, a[2] if len(a) > 2 else None)["tries"][a[0]] = a[1]
            elif d == "spec":
                cur = ("spec", arg or None)
            elif d == "assume_std":
                cur = ("assume_std", arg or None)
            elif d == "loop":
                a = arg.split()
                cur = ("loop", a[0], a[1] if len(a) > 1 else None)
            elif d == "closure":
                a = arg.split()
                h = next((x[5:] for x in a[1:] if x.startswith("hash=")), None)
                rest = [x for x in a[1:] if not x.startswith("hash=")]
                fnn = rest[0] if rest else None
                if h:
                    fnspec(unit, fnn).setdefault("closure_hashes", {})[a[0]] = h
                cur = ("closure", a[0], fnn)
            elif d == "hint":
                # @@hint before|after|first [nth=N] [fn=name] anchor text...
                a = arg.split(None, 1)
                pos = a[0]
                rest = a[1] if len(a) > 1 else ""
                nth = 0
                fn = None
                while True:
                    m = re.match(r"^(nth|fn)=(\S+)\s*(.*)$", rest)
                    if not m:
                        break
                    if m.group(1) == "nth":
                        nth = int(m.group(2))
                    else:
                        fn = m.group(2)
                    rest = m.group(3)
                if pos not in ("before", "after", "first", "last"):
                    raise SystemExit(f"{path}:{ln}: @@hint position must be before|after|first|last")
                cur = ("hint", pos, nth, rest, fn)
            elif d == "pin":
                a = arg.split()
                cur = ("pin", "stmt" in a, next((x[3:] for x in a if x.startswith("fn=")), None))
            elif d == "raw":
                cur = ("raw", arg.split())
            elif d == "text":
                # a unit whose text is given verbatim (e.g. a lemma tied to a property)
                unit["kind"] = "text"
                cur = ("unit_raw",)
            elif d == "end":
                pass
            else:
                raise SystemExit(f"{path}:{ln}: unknown directive @@{d}")
        else:
            if cur is not None:
                buf.append(line)
    flush()
    return g


def load_groups():
    d = os.path.join(VERIF, "specs")
    gs = []
    for f in sorted(os.listdir(d)):
        if f.endswith(".vspec"):
            gs.append(parse_vspec(os.path.join(d, f)))
    byname = {g["name"]: g for g in gs}
    import copy
    for g in gs:
        for i, u in enumerate(g["units"]):
            if u.get("kind") == "import":
                grp, un = u["import"]
                src = next((x for x in byname[grp]["units"] if x["name"] == un), None)
                if src is None:
                    raise SystemExit(f"{g['path']}: import {grp}:{un} not found")
                c = copy.deepcopy(src)
                c["props"] = []
                c["imported_from"] = grp
                c["novac"] = True
                if c["kind"] in ("fn", "method", "impl"):
                    if not c["fns"]:
                        c["fns"] = {c.get("default_fn") or "_": {"loops": {}, "closures": {}, "hints": [], "tries": {}, "pins": [], "attrs": []}}
                    for fs in c["fns"].values():
                        fs["external_body"] = True
                        fs["loops"] = {}
                        fs["closures"] = {}
                        fs["hints"] = []
                        fs["pins"] = []
                        fs["tries"] = {}
                        if fs.get("spec"):
                            fs["spec"] = fs["spec"].replace("/*@ob ", "/*@assumed ")
                g["units"][i] = c
    return gs


# ----------------------------------------------------------------------------------------
# extraction
# ----------------------------------------------------------------------------------------
_SHAPES = None


def known_closures(group_name, unit_name):
    """closure body hashes recorded for this unit in specs/shapes.json ([] for a unit recorded without closures;
    None when there is no record at all, e.g. while tools/mkshapes.py itself runs)"""
    global _SHAPES
    if os.environ.get("VERIF_NO_SHAPES"):
        return None
    if _SHAPES is None:
        sp = os.path.join(VERIF, "specs", "shapes.json")
        _SHAPES = json.load(open(sp)) if os.path.exists(sp) else {}
    if not _SHAPES:
        return None
    rec = _SHAPES.get(f"{group_name}:{unit_name}")
    if rec is None:
        return []
    return rec.get("closure_hashes")


def run_vx(group, vac_names=None):
    units = []
    for u in group["units"]:
        if u["kind"] == "text":
            continue
        req = {"name": u["name"], "file": u["file"], "kind": u["kind"], "path": u.get("path", []),
               "self_ty": u.get("self_ty"), "trait": u.get("trait"), "method": u.get("method"),
               "fns": u["fns"], "derive_keep": u.get("derive_keep"), "only_methods": u.get("only_methods"),
               "pre_attrs": u.get("pre_attrs", []), "drop_fields": u.get("drop_fields", []),
               "hoist": bool(u.get("hoist")), "fragments_only": bool(u.get("fragments_only")), "vac": bool(vac_names and u["name"] in vac_names),
               "known_closures": known_closures(group["name"], u["name"])}
        units.append(req)
    job = {"repo": REPO, "units": units, "renames": group["renames"], "macro_map": group["macro_map"],
           "expr_map": group["exprmap"], "type_map": group.get("typemap", [])}
    p = subprocess.run([VX], input=json.dumps(job), capture_output=True, text=True)
    if p.returncode != 0:
        raise Undecided("extractor-failure", p.stderr[-2000:])
    outs = json.loads(p.stdout)
    return {o["name"]: o for o in outs}


def read_prelude(name):
    path = os.path.join(VERIF, "prelude", name + ".rs")
    text = open(path).read()
    uses = re.findall(r"^//@uses (\S+)", text, re.M)
    bcast = re.findall(r"^//@broadcast (\S+)", text, re.M)
    return text, uses, bcast


HEADER = """#![feature(pattern)]
#![allow(unused_imports, unused_variables, dead_code, unused_mut, non_snake_case, unused_parens, unreachable_code, unused_braces, non_camel_case_types, non_upper_case_globals, private_interfaces, unused_assignments)]
// GENERATED by /verif/check from /repo working tree -- do not edit.
use vstd::prelude::*;
"""

MOD_USES = """    use vstd::prelude::*;
    use vstd::future::*;
    use core::future::Future;
    use core::pin::Pin;
    use core::task::{Context as TaskContext, Poll};
    use std::collections::HashMap;
    use std::ops::{Add, AddAssign, Sub, SubAssign};
    use std::convert::{TryFrom, TryInto};
    use std::str::FromStr;
"""


def vac_twin(text, unit):
    """Vacuity twin of a free fn / single-method unit: same text, renamed, extra `ensures false`."""
    return None


def assemble(group, outs, vac_names=None):
    """Returns (text, line_map) where line_map is a list of (start_line, end_line, unit_name)."""
    lines = HEADER.split("\n")
    preludes = []
    seen = set()

    def add_prelude(n):
        if n in seen:
            return
        text, uses, bcast = read_prelude(n)
        for u in uses:
            add_prelude(u)
        seen.add(n)
        preludes.append((n, text, uses, bcast))

    for n in group["prelude"]:
        add_prelude(n)
    bcasts = []
    for n, text, uses, bcast in preludes:
        lines.append(f"pub mod vx_{n} {{")
        lines += MOD_USES.rstrip("\n").split("\n")
        for u in uses:
            lines.append(f"    use super::vx_{u}::*;")
        lines.append("    verus!{")
        ub = []
        for u in uses:
            for pn, _, _, pb in preludes:
                if pn == u:
                    for b in pb:
                        ub.append(f"super::vx_{u}::{b}")
        if ub:
            lines.append("    broadcast use {" + ", ".join(ub) + "};")
        lines += text.split("\n")
        lines.append("    }")
        lines.append("}")
        for b in bcast:
            bcasts.append(f"vx_{n}::{b}")
    lines.append("pub mod units {")
    lines += MOD_USES.rstrip("\n").split("\n")
    for n, _, _, _ in preludes:
        lines.append(f"    use super::vx_{n}::*;")
    lines.append("    verus!{")
    all_b = [f"super::{b}" for b in bcasts] + list(group.get("bcast_extra", []))
    if all_b:
        lines.append("    broadcast use {" + ", ".join(all_b) + "};")
    line_map = []
    for inc in group["includes"]:
        t = open(os.path.join(VERIF, "prelude", "inc", inc + ".rs")).read()
        start = len(lines) + 1
        lines += t.split("\n")
        line_map.append((start, len(lines), "include:" + inc))
    for lf in group["lemmas"]:
        t = open(os.path.join(VERIF, "specs", "lemmas", lf + ".rs")).read()
        start = len(lines) + 1
        lines += t.split("\n")
        line_map.append((start, len(lines), "lemmas:" + lf))
    # format! helpers generated by vx (R3), one per distinct literal
    seen_fmt = set()
    for o in outs.values():
        for name, text in o.get("fmt_helpers", []) or []:
            if name not in seen_fmt:
                seen_fmt.add(name)
                start = len(lines) + 1
                lines += text.split("\n")
                line_map.append((start, len(lines), "fmt:" + name))
    open_mod = None

    def close_mod():
        nonlocal open_mod
        if open_mod:
            for m in open_mod.split("::"):
                lines.append("    }")
                lines.append("}")
        open_mod = None

    # units of one emit_mod are emitted together, at the position of the first of them
    ordered = []
    seen_mods = set()
    for u in group["units"]:
        m = u.get("emit_mod")
        if not m:
            ordered.append(u)
        elif m not in seen_mods:
            seen_mods.add(m)
            ordered += [x for x in group["units"] if x.get("emit_mod") == m]
    for u in ordered:
        if u["kind"] == "text":
            text = u["raw_text"]
        else:
            o = outs[u["name"]]
            text = o["text"]
        wrap = u.get("emit_mod")
        if wrap != open_mod:
            close_mod()
            if wrap:
                depth = 0
                for m in wrap.split("::"):
                    lines.append(f"pub mod {m} {{")
                    lines.append("    use super::*;")
                    lines.append("    verus!{")
                    up = "super::" * (depth + 2)
                    all_b2 = [f"{up}{b}" for b in bcasts] + list(group.get("bcast_extra", []))
                    if all_b2:
                        lines.append("    broadcast use {" + ", ".join(all_b2) + "};")
                    depth += 1
                open_mod = wrap
        start = len(lines) + 1
        lines += text.split("\n")
        line_map.append((start, len(lines), u["name"]))
    close_mod()
    lines.append("    }")
    lines.append("}")
    lines.append("fn main() {}")
    return "\n".join(lines) + "\n", line_map


# ----------------------------------------------------------------------------------------
# Verus
# ----------------------------------------------------------------------------------------
def run_verus(path, rlimit=30, extra=None, timeout=1800, multiple_errors=20):
    cmd = ["verus", path, "--error-format=json", "--output-json", "--time", "--multiple-errors", str(multiple_errors),
           "--rlimit", str(rlimit), "--triggers-mode", "silent", "--num-threads", "16"]
    if extra:
        cmd += extra
    # Verifier results are a function of the generated text and the flags: identical text (same /repo
    # functions, same contracts, same prelude) is not re-verified within one sandbox (cache under .cache/).
    text = open(path).read()
    key = hashlib.sha256((text + "\0" + " ".join(cmd[2:]) + "\0verus-0.2026.09.13").encode()).hexdigest()
    cdir = os.path.join(CACHE, "results")
    os.makedirs(cdir, exist_ok=True)
    cpath = os.path.join(cdir, key + ".json")
    if os.path.exists(cpath) and not os.environ.get("VERIF_NOCACHE"):
        r = json.load(open(cpath))
        r["cached"] = True
        return r
    t0 = time.time()
    try:
        p = subprocess.run(cmd, capture_output=True, text=True, timeout=timeout, cwd=os.path.dirname(path))
    except subprocess.TimeoutExpired:
        raise Undecided("verifier-timeout", path)
    wall = time.time() - t0
    diags = []
    for l in p.stderr.split("\n"):
        l = l.strip()
        if l.startswith("{") and '"$message_type"' in l:
            try:
                diags.append(json.loads(l))
            except Exception:
                pass
    summary = None
    try:
        i = p.stdout.index("{")
        summary = json.loads(p.stdout[i:])
    except Exception:
        summary = None
    r = {"cmd": " ".join(cmd), "rc": p.returncode, "diags": diags, "summary": summary, "wall": wall,
         "stderr": p.stderr[-20000:], "stdout": "", "cached": False, "text_sha256": key}
    try:
        json.dump(r, open(cpath, "w"))
    except Exception:
        pass
    return r


HARD_MARKERS = ("not supported", "unsupported", "The verifier does not yet support", "not yet supported",
                "Verus does not", "cannot find", "mismatched types", "unresolved", "expected", "no method named",
                "no function or associated item", "is not satisfied", "cannot use", "not allowed", "must be")


VERIF_FAILURE_PREFIXES = (
    "postcondition not satisfied", "precondition not satisfied", "assertion failed", "invariant not satisfied",
    "possible arithmetic underflow/overflow", "possible division by zero", "possible bit shift underflow/overflow",
    "decreases not satisfied", "could not prove termination", "loop invariant not satisfied",
    "possible truncation", "Resource limit", "unreachable", "constructed value may fail",
    "cannot show invariant", "failed precondition", "recommendation not met", "possible overflow",
    "call to non-static function fails", "index out of bounds", "possible out of bounds",
    "unable to prove post-condition of closure", "unable to prove", "function body check",
)


def is_verification_failure(d):
    """True when the diagnostic is a failed proof obligation (as opposed to a front-end error)."""
    if d.get("level") != "error":
        return False
    if d.get("code"):
        return False
    msg = d.get("message", "").strip()
    return any(msg.startswith(p) for p in VERIF_FAILURE_PREFIXES)


def is_rlimit(d):
    return "Resource limit" in d.get("message", "") or "rlimit" in d.get("message", "")


def primary_span(d):
    for s in d.get("spans", []):
        if s.get("is_primary"):
            return s
    sp = d.get("spans", [])
    return sp[0] if sp else None


def unit_of_line(line_map, line):
    for a, b, n in line_map:
        if a <= line <= b:
            return n, a
    return None, None


def sha(s):
    return hashlib.sha256(s.encode()).hexdigest()[:16]
