#!/bin/sh
# seedtest.sh <patch.diff> <PID> [more check args]: apply a seeded regression to /repo, run the check, undo.
# Output (generated files, replays, evidence) goes to a scratch directory so that /verif/evidence keeps
# describing the unchanged tree.
p="$1"; shift
out=/tmp/wt/seedtest_out
mkdir -p "$out"
git -C /repo apply "$p" || exit 9
cd /verif && VERIF_OUT="$out" ./check "$@"; rc=$?
git -C /repo checkout -- .
echo "seedtest rc=$rc (replays/evidence of this run: $out)"
exit $rc
