#!/bin/sh
# seedtest.sh <patch.diff> <PID> [more check args]: apply a seeded regression to /repo, run the check, undo.
p="$1"; shift
git -C /repo apply "$p" || exit 9
cd /verif && ./check "$@"; rc=$?
git -C /repo checkout -- .
echo "seedtest rc=$rc"
exit $rc
