#!/bin/sh
# Warm the Kani build of the harness crate (dependency graph of omaha-client) so that checks only pay for their own harness.
cd "$(dirname "$0")/.." || exit 1
python3 - <<'PY'
import sys, os
sys.path.insert(0, os.path.join(os.getcwd(), "tools"))
import kani_units
err = kani_units.prepare()
print("kani prepare:", err)
r = kani_units.run_harness("c20_version_from_arrays_zero_fills", 1500)
print("kani warm-up:", r["status"], round(r["wall"], 1), "s")
PY
