#!/usr/bin/env python3
"""Print the prompt given to an independent seeding sub-agent for one property.
The sub-agent sees only the property text and its own scratch worktree."""
import json,sys
pid=sys.argv[1]
n=int(sys.argv[2]) if len(sys.argv)>2 else 2
for l in open('/verif/properties.jsonl'):
    p=json.loads(l)
    if p['id']==pid: break
wt=f"/tmp/seed/{pid}"
print(f"""You are helping test a verification framework by writing realistic *regressions* of a Rust project.

Your scratch copy of the project (a git worktree of google/omaha-client, Rust, builds offline) is at {wt}. Work ONLY inside {wt} (never touch /repo or /verif, do not read anything under /verif). There is no network: always pass --offline to cargo and set CARGO_TARGET_DIR={wt}/target. The workspace test suite is run with:
  cd {wt} && CARGO_TARGET_DIR={wt}/target cargo test --workspace --no-fail-fast --offline
(248 tests, all pass on the unchanged tree; a cold build takes about a minute or two).

Here is a semantic property of the project that should always hold:

  Title: {p['title']}
  Statement: {p['statement']}
  Quantified: {p['quantifier']['text']}

Task: produce {n} DIFFERENT, independent changes to the project's non-test source code (under omaha-client/src or mock-omaha-server/src, not inside #[cfg(test)] modules, no changes to existing tests) each of which
  (a) still compiles, and ALL 248 existing tests still pass with it (run them and confirm), and
  (b) breaks the property above in a way that needs something specific to manifest: an unusual or boundary input, a particular multi-step sequence of operations, a fault at a particular point, a particular interleaving, or two cooperating sites that each look fine alone. Do NOT write a change that ordinary use would expose at once, and do not write a change so contrived that no developer could make it by accident (think: a plausible refactoring slip, an off-by-one, a wrong variable, a dropped or reordered step, a too-narrow type, a condition that is subtly too weak or too strong).
  (c) comes with a demonstration: a new Rust test (placed in a NEW file or appended test function, kept separate from the change itself) that FAILS with the change applied and PASSES on the unchanged tree. Verify both directions by actually running it.

Each change should be small (a few lines). Make them different in kind and in the function they touch where possible.

Deliver, for change k = 1..{n}, these files under {wt}/seed_out/k/ :
  patch.diff   - `git diff` of ONLY the source change (apply-able with `git apply` at the worktree root on the unchanged tree), not including the demonstration
  demo.diff    - `git diff` (or new-file diff) adding ONLY the demonstration test, apply-able on the unchanged tree
  meta.json    - {{"property": "{pid}", "summary": "...what the change does...", "needs_to_manifest": "...the specific input/sequence/fault...", "demo_cmd": "exact cargo test command that runs the demonstration", "files_touched": [...]}}
When done, leave the worktree with NO changes applied (git checkout -- . and remove untracked files except seed_out/), and make sure each patch.diff and demo.diff applies cleanly on the clean tree (`git apply --check`). Reply with a short summary of each change (one paragraph each) and confirm the four verifications per change (tests pass with patch; demo fails with patch; demo passes without patch; patches apply cleanly).""")
